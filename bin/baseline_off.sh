#!/bin/sh
# Runs the repository's own suite with the verification guard OFF (the meson
# build never defines JANET_VERIF).
exec meson test -C /repo/_build
