"""Channel trace acceptor (C06, shared with C07): consumes the client-boundary event
log of a single-threaded channel program in observed order and checks every event
against the documented channel semantics (DESIGN.md Appendix A)."""
from collections import deque


class Violation(Exception):
    def __init__(self, rule, detail):
        self.rule = rule
        self.detail = detail


class Ambiguous(Exception):
    pass


class Reg:
    __slots__ = ("fid", "opidx", "kind", "ch", "val", "live", "clause")

    def __init__(self, fid, opidx, kind, ch, val=None, clause=0):
        self.fid, self.opidx, self.kind, self.ch, self.val, self.live, self.clause = fid, opidx, kind, ch, val, True, clause


class Chan:
    def __init__(self, cap):
        self.cap = cap
        self.items = deque()    # (value, owner Reg or None)
        self.takers = []
        self.givers = []
        self.closed = False


class Fiber:
    def __init__(self):
        self.state = "running"   # running | parked | done
        self.op = None           # (opidx, kind, args)
        self.pending = None      # ('val', result) once the model has completed the op
        self.regs = []
        self.abandoned_ok = False


def res_take(ch, v):
    return "take:%s:%s" % (ch, v)


def res_give(ch):
    return "give:%s" % ch


def res_close(ch):
    return "close:%s" % ch


class Acceptor:
    def __init__(self, caps):
        self.ch = {name: Chan(cap) for name, cap in caps.items()}
        self.fib = {}
        self.given = {}        # value -> (fid, opidx, ch, kind)
        self.received = {}     # value -> (fid, opidx)
        self.unchosen = set()  # values of select give clauses that must never be delivered
        self.open_values = set()   # values of abandoned gives: may or may not be delivered (C07)
        self.order = {}        # (giver fid, taker fid, ch) -> last value seq
        self.states = []
        self.parked_completed = 0
        self.phantom_channels = set()   # channels where the implementation is known to keep an unchosen select give item

    def f(self, fid):
        return self.fib.setdefault(fid, Fiber())

    # ---- helpers
    def live_taker(self, c):
        while c.takers and not c.takers[0].live:
            c.takers.pop(0)
        return c.takers[0] if c.takers else None

    def kill_regs(self, fb, keep=None):
        for r in fb.regs:
            if r is keep:
                continue
            r.live = False
            if r.kind == "selgive":
                c = self.ch[r.ch]
                # an unfired give clause has no further effect: its value leaves the queue
                for it in list(c.items):
                    if it[1] is r:
                        c.items.remove(it)
                        self.phantom_channels.add(r.ch)
                self.unchosen.add(r.val)
            if r in self.ch[r.ch].takers:
                self.ch[r.ch].takers.remove(r)
            if r in self.ch[r.ch].givers:
                self.ch[r.ch].givers.remove(r)
        fb.regs = []

    def complete(self, reg, result):
        fb = self.f(reg.fid)
        if fb.state != "parked" or fb.op is None or fb.op[0] != reg.opidx:
            return
        fb.pending = ("val", result)
        self.parked_completed += 1
        self.kill_regs(fb, keep=None if reg.kind not in ("selgive",) else reg)
        if reg.kind == "selgive":
            reg.live = False
            c = self.ch[reg.ch]
            if reg in c.givers:
                c.givers.remove(reg)
            fb.regs = []

    def note_receive(self, v, fid, opidx, ch):
        if v in self.unchosen:
            raise Violation("phantom-give:select-unchosen-clause", "value %s of an unchosen select give clause was received by fiber %s" % (v, fid))
        if v not in self.given:
            raise Violation("received-never-given", "value %s received by fiber %s was never given" % (v, fid))
        if v in self.received:
            raise Violation("received-twice", "value %s received twice (by %s and %s)" % (v, self.received[v], (fid, opidx)))
        self.received[v] = (fid, opidx)
        g = self.given[v]
        key = (g[0], fid, ch)
        seq = g[4]
        if key in self.order and self.order[key] > seq:
            raise Violation("order-broken", "fiber %s received value %s from fiber %s on %s after a later one" % (fid, v, g[0], ch))
        self.order[key] = seq

    def release_giver(self, c, cname):
        """After an item left the queue: the oldest live parked giver whose item now fits is released."""
        while c.givers and not c.givers[0].live:
            c.givers.pop(0)
        if not c.givers:
            return
        g = c.givers[0]
        # position of the giver's item in the queue (or already taken)
        pos = None
        for i, it in enumerate(c.items):
            if it[1] is g:
                pos = i
                break
        if pos is None or pos < max(c.cap, 0) or (c.cap == 0 and pos is None):
            c.givers.pop(0)
            if g.kind == "selgive":
                self.complete(g, res_give(cname))
            else:
                self.complete(g, "chan:" + cname)

    # ---- operations (CALL events)
    def do_give(self, fid, opidx, cname, v, seq):
        c = self.ch[cname]
        self.given[v] = (fid, opidx, cname, "give", seq)
        if c.closed:
            return ("immediate", "err")
        t = self.live_taker(c)
        if t is not None:
            c.takers.pop(0)
            self.note_receive(v, t.fid, t.opidx, cname)
            self.complete(t, str(v) if t.kind == "take" else res_take(cname, v))
            return ("immediate", "chan:" + cname)
        reg = Reg(fid, opidx, "give", cname, v)
        c.items.append((v, reg))
        if len(c.items) <= c.cap:
            return ("immediate", "chan:" + cname)
        c.givers.append(reg)
        self.f(fid).regs = [reg]
        return ("park", None)

    def do_take(self, fid, opidx, cname):
        c = self.ch[cname]
        if c.closed:
            return ("later", "nil")
        if c.items:
            v, owner = c.items.popleft()
            self.note_receive(v, fid, opidx, cname)
            if owner is not None and owner in c.givers and owner.live:
                # the parked giver's own item was taken (capacity 0 style)
                c.givers.remove(owner)
                self.complete(owner, res_give(cname) if owner.kind == "selgive" else "chan:" + cname)
            else:
                self.release_giver(c, cname)
            return ("later", str(v))
        reg = Reg(fid, opidx, "take", cname)
        c.takers.append(reg)
        self.f(fid).regs = [reg]
        return ("park", None)

    def clause_enabled(self, cl):
        c = self.ch[cl[1]]
        if c.closed:
            return True
        if cl[0] == "take":
            return len(c.items) > 0
        return self.live_taker(c) is not None or len(c.items) < c.cap

    def fire_clause(self, fid, opidx, cl, seq):
        cname = cl[1]
        c = self.ch[cname]
        if c.closed:
            return res_close(cname)
        if cl[0] == "take":
            v, owner = c.items.popleft()
            self.note_receive(v, fid, opidx, cname)
            if owner is not None and owner in c.givers and owner.live:
                c.givers.remove(owner)
                self.complete(owner, res_give(cname) if owner.kind == "selgive" else "chan:" + cname)
            else:
                self.release_giver(c, cname)
            return res_take(cname, v)
        v = cl[2]
        self.given[v] = (fid, opidx, cname, "selgive", seq)
        t = self.live_taker(c)
        if t is not None:
            c.takers.pop(0)
            self.note_receive(v, t.fid, t.opidx, cname)
            self.complete(t, str(v) if t.kind == "take" else res_take(cname, v))
        else:
            c.items.append((v, None))
        return res_give(cname)

    def do_select(self, fid, opidx, clauses, seq, ordered, peek_result):
        enabled = [i for i, cl in enumerate(clauses) if self.clause_enabled(cl)]
        if enabled:
            if ordered:
                i = enabled[0]
            else:
                # rselect: any enabled clause may fire; resolve by the observed immediate result
                cand = []
                for i in enabled:
                    cl = clauses[i]
                    c = self.ch[cl[1]]
                    if c.closed:
                        cand.append((i, res_close(cl[1])))
                    elif cl[0] == "take":
                        cand.append((i, res_take(cl[1], c.items[0][0])))
                    else:
                        cand.append((i, res_give(cl[1])))
                match = [i for i, rtxt in cand if rtxt == peek_result]
                if not match:
                    if peek_result is None and len(enabled) == 1:
                        match = enabled
                    elif peek_result is None:
                        raise Ambiguous()
                    else:
                        raise Violation("select-result-not-enabled", "rselect returned %s but enabled clauses give %s" % (peek_result, [c_[1] for c_ in cand]))
                i = match[0]
            for j, cl in enumerate(clauses):
                if cl[0] == "give" and j != i:
                    self.unchosen.add(cl[2])
            return ("immediate-or-later", self.fire_clause(fid, opidx, clauses[i], seq))
        regs = []
        for j, cl in enumerate(clauses):
            c = self.ch[cl[1]]
            if cl[0] == "take":
                r = Reg(fid, opidx, "seltake", cl[1], clause=j)
                c.takers.append(r)
            else:
                r = Reg(fid, opidx, "selgive", cl[1], cl[2], clause=j)
                self.given[cl[2]] = (fid, opidx, cl[1], "selgive", seq)
                c.items.append((cl[2], r))
                c.givers.append(r)
            regs.append(r)
        self.f(fid).regs = regs
        return ("park", None)

    def do_close(self, cname):
        c = self.ch[cname]
        if c.closed:
            return
        c.closed = True
        for r in list(c.givers):
            if r.live:
                self.complete(r, res_close(cname) if r.kind == "selgive" else "nil")
        for r in list(c.takers):
            if r.live:
                self.complete(r, res_close(cname) if r.kind == "seltake" else "nil")
        c.givers, c.takers = [], []

    def snapshot(self):
        return tuple((n, len(c.items), len([r for r in c.takers if r.live]), len([r for r in c.givers if r.live]), c.closed) for n, c in sorted(self.ch.items()))


def check_history(caps, events, exited_ok=True):
    """Runs the acceptor; a violation that happens after the ideal model has dropped the queued value of an
    unchosen select give clause is reported under its own rule prefix (that divergence is one specific defect)."""
    holder = {}
    try:
        return _check_history(caps, events, holder)
    except Violation as v:
        acc = holder.get("acc")
        if acc is not None and acc.phantom_channels and not v.rule.startswith("phantom-give"):
            raise Violation("after-unchosen-select-give:" + v.rule, v.detail + " [channels with a dropped unchosen give item: %s]" % sorted(acc.phantom_channels))
        raise


def _check_history(caps, events, holder):
    """events: list of dicts {t:'C'|'R'|'D'|'A', fid, opidx, kind, args/result}. Raises Violation / Ambiguous.
    Returns stats dict."""
    acc = Acceptor(caps)
    holder["acc"] = acc
    seq = 0
    n = len(events)
    i = 0
    expect_immediate = None   # (fid, opidx, result)
    state_hashes = []
    while i < n:
        e = events[i]
        fid = e["fid"]
        fb = acc.f(fid)
        if expect_immediate is not None:
            ef, eo, er = expect_immediate
            if not (e["t"] == "R" and e["fid"] == ef and e["opidx"] == eo):
                raise Violation("blocked-but-enabled:" + expect_immediate_kind, "operation %s/%s should complete without waiting (result %s) but the next event is %s" % (ef, eo, er, e))
        if e["t"] == "C":
            seq += 1
            kind = e["kind"]
            fb.op = (e["opidx"], kind, e["args"])
            fb.pending = None
            fb.state = "parked"
            nxt = events[i + 1] if i + 1 < n else None
            peek = nxt["result"] if (nxt and nxt["t"] == "R" and nxt["fid"] == fid and nxt["opidx"] == e["opidx"]) else None
            if kind == "give":
                mode, res = acc.do_give(fid, e["opidx"], e["args"][0], e["args"][1], seq)
                if mode == "immediate":
                    fb.pending = ("val", res)
                    expect_immediate = (fid, e["opidx"], res)
                    expect_immediate_kind = "give"
                else:
                    if peek is not None:
                        raise Violation("not-blocked-but-full:give", "give %s on %s returned at once (%s) although no taker waits and the channel is full" % (e["args"][1], e["args"][0], peek))
            elif kind == "take":
                mode, res = acc.do_take(fid, e["opidx"], e["args"][0])
                if mode == "later":
                    fb.pending = ("val", res)
            elif kind in ("select", "rselect"):
                mode, res = acc.do_select(fid, e["opidx"], e["args"], seq, kind == "select", peek)
                if mode != "park":
                    fb.pending = ("val", res)
                else:
                    if peek is not None:
                        raise Violation("not-blocked-but-nothing-enabled:" + kind, "%s returned at once with %s although no clause was enabled" % (kind, peek))
            elif kind == "close":
                acc.do_close(e["args"][0])
                fb.pending = ("val", "chan:" + e["args"][0])
                expect_immediate = (fid, e["opidx"], "chan:" + e["args"][0])
                expect_immediate_kind = "close"
            elif kind == "count":
                fb.pending = ("val", str(len(acc.ch[e["args"][0]].items)))
                expect_immediate = (fid, e["opidx"], fb.pending[1])
                expect_immediate_kind = "count"
            elif kind == "full":
                c = acc.ch[e["args"][0]]
                fb.pending = ("val", "true" if len(c.items) >= c.cap else "false")
                expect_immediate = (fid, e["opidx"], fb.pending[1])
                expect_immediate_kind = "full"
            elif kind == "yield":
                fb.pending = ("val", "nil")
            state_hashes.append(acc.snapshot())
        elif e["t"] == "R":
            expect_immediate = None
            if fb.op is None or fb.op[0] != e["opidx"]:
                raise Violation("return-without-call", "fiber %s returned from op %s it is not in" % (fid, e["opidx"]))
            rv = e["result"]
            rnum = rv.split(":")[-1] if rv.startswith("take:") else rv
            if rnum.isdigit() and int(rnum) in acc.unchosen and fb.op[1] in ("take", "select", "rselect"):
                raise Violation("phantom-give:select-unchosen-clause", "fiber %s received %s, the value of a select give clause whose select completed through another clause" % (fid, rnum))
            if fb.pending is None:
                raise Violation("spurious-wakeup:" + fb.op[1], "fiber %s op %s (%s %s) returned %s but nothing has completed it" % (fid, e["opidx"], fb.op[1], fb.op[2], e["result"]))
            if fb.pending[1] != e["result"]:
                raise Violation("wrong-result:" + fb.op[1], "fiber %s op %s (%s %s) returned %s, expected %s" % (fid, e["opidx"], fb.op[1], fb.op[2], e["result"], fb.pending[1]))
            fb.state = "running"
            fb.op = None
            fb.pending = None
        elif e["t"] == "D":
            fb.state = "done"
        i += 1
    # end of history
    for fid, fb in acc.fib.items():
        if fb.state == "parked":
            if fb.pending is not None:
                raise Violation("lost-wakeup:" + fb.op[1], "fiber %s op %s (%s %s) was completed (result %s) but never returned" % (fid, fb.op[0], fb.op[1], fb.op[2], fb.pending[1]))
            # parked and enabled?
            kind, args = fb.op[1], fb.op[2]
            if kind == "take":
                c = acc.ch[args[0]]
                if c.items or c.closed:
                    raise Violation("lost-wakeup:take", "fiber %s is parked on take %s although the channel has items / is closed" % (fid, args[0]))
            if kind == "give":
                c = acc.ch[args[0]]
                if c.closed:
                    raise Violation("lost-wakeup:give", "fiber %s parked on give to a closed channel" % fid)
                pos = [k for k, it in enumerate(c.items) if it[0] == args[1]]
                if pos and pos[0] < c.cap:
                    raise Violation("lost-wakeup:give", "fiber %s is parked on give %s although its item is within capacity" % (fid, args))
            if kind in ("select", "rselect"):
                if any(acc.clause_enabled(cl) for cl in args):
                    raise Violation("lost-wakeup:" + kind, "fiber %s is parked on %s although a clause is enabled" % (fid, kind))
    # conservation: given = received + still queued (+ unchosen, which never entered)
    queued = set()
    for c in acc.ch.values():
        for it in c.items:
            queued.add(it[0])
    for v in acc.received:
        if v in queued:
            raise Violation("received-and-still-queued", "value %s" % v)
    return dict(states=len(set(state_hashes)), parked_completed=acc.parked_completed, received=len(acc.received),
                state_seq_hash=hash(tuple(state_hashes)))
