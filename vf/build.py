"""Build janet from /repo's current working tree, with hooks on, per flavour.

Outputs are cached under /verif/.cache keyed by a hash of every file under
/repo/src plus the flags, so an edited tree is always rebuilt and an unchanged
tree is reused.  Scratch build directories live under /var/tmp and are removed.
"""
import fcntl
import hashlib
import os
import shutil
import subprocess
import sys
import tempfile
import time
from concurrent.futures import ThreadPoolExecutor

REPO = os.environ.get("VERIF_REPO", "/repo")
VERIF = os.path.dirname(os.path.dirname(os.path.abspath(__file__)))
CACHE = os.path.join(VERIF, ".cache")
GUARD = "-DJANET_VERIF"

COMMON = ["-std=c99", "-Isrc/include", "-Isrc/conf", "-fPIC", "-g", GUARD, "-w"]
LIBS = ["-lm", "-lpthread", "-lrt", "-ldl"]

UBSAN_POLICY = [
    "-fsanitize=address,undefined",
    "-fno-sanitize-recover=all",
    # arithmetic UB and zero-length memcpy/memmove(NULL, ..) are not promised away by any property: count, do not die
    "-fsanitize-recover=signed-integer-overflow,shift,float-cast-overflow,nonnull-attribute",
    "-fno-omit-frame-pointer",
]

FLAVOURS = {
    "plain": dict(cc="gcc", flags=["-O2"]),
    "asan": dict(cc="gcc", flags=["-O1"] + UBSAN_POLICY),
    "asan-reloc": dict(cc="gcc", flags=["-O1", "-DJANET_DEBUG"] + UBSAN_POLICY),
    "tsan": dict(cc="gcc", flags=["-O1", "-fsanitize=thread", "-fno-omit-frame-pointer"]),
}


class BuildError(Exception):
    pass


def source_hash():
    h = hashlib.sha256()
    root = os.path.join(REPO, "src")
    for d, dirs, files in sorted(os.walk(root)):
        dirs.sort()
        for f in sorted(files):
            p = os.path.join(d, f)
            h.update(os.path.relpath(p, root).encode())
            h.update(b"\0")
            with open(p, "rb") as fh:
                h.update(fh.read())
            h.update(b"\0")
    return h.hexdigest()[:20]


class _Lock:
    def __init__(self, name):
        os.makedirs(CACHE, exist_ok=True)
        self.path = os.path.join(CACHE, name + ".lock")

    def __enter__(self):
        self.fh = open(self.path, "w")
        fcntl.flock(self.fh, fcntl.LOCK_EX)
        return self

    def __exit__(self, *a):
        fcntl.flock(self.fh, fcntl.LOCK_UN)
        self.fh.close()


def _run(cmd, cwd, log):
    p = subprocess.run(cmd, cwd=cwd, stdout=subprocess.PIPE, stderr=subprocess.STDOUT)
    if p.returncode != 0:
        log.append(" ".join(cmd) + "\n" + p.stdout.decode(errors="replace")[-4000:])
        raise BuildError("command failed: " + " ".join(cmd[:6]) + " ...\n" + p.stdout.decode(errors="replace")[-3000:])
    return p.stdout


def _prune(keep_hash):
    """Remove cache entries of other source hashes (disk hygiene)."""
    if not os.path.isdir(CACHE):
        return
    for name in os.listdir(CACHE):
        p = os.path.join(CACHE, name)
        if os.path.isdir(p) and not name.endswith(keep_hash) and "-" in name:
            # keep at most the current tree and nothing else older than 6 h
            try:
                if time.time() - os.path.getmtime(p) > 6 * 3600:
                    shutil.rmtree(p, ignore_errors=True)
            except OSError:
                pass


def amalgamation(sh=None):
    """Return directory holding janet.c, shell.c, janet.h, janetconf.h for the current tree."""
    sh = sh or source_hash()
    out = os.path.join(CACHE, "amalg-" + sh)
    if os.path.exists(os.path.join(out, "janet.c")):
        return out
    with _Lock("amalg-" + sh):
        if os.path.exists(os.path.join(out, "janet.c")):
            return out
        _prune(sh)
        work = tempfile.mkdtemp(prefix="verif-build-", dir="/var/tmp")
        log = []
        try:
            shutil.copytree(os.path.join(REPO, "src"), os.path.join(work, "src"))
            core = sorted(f for f in os.listdir(os.path.join(work, "src/core")) if f.endswith(".c"))
            boot = sorted(f for f in os.listdir(os.path.join(work, "src/boot")) if f.endswith(".c"))
            srcs = ["src/core/" + f for f in core] + ["src/boot/" + f for f in boot]
            os.makedirs(os.path.join(work, "obj"))
            bflags = ["-DJANET_BOOTSTRAP", '-DJANET_BUILD="verif"', "-O0"] + COMMON

            def cc(src):
                obj = "obj/" + src.replace("/", "_") + ".o"
                _run(["gcc"] + bflags + ["-c", src, "-o", obj], work, log)
                return obj

            with ThreadPoolExecutor(16) as ex:
                objs = list(ex.map(cc, srcs))
            _run(["gcc"] + bflags + ["-o", "janet_boot"] + objs + LIBS, work, log)
            with open(os.path.join(work, "janet.c"), "wb") as fh:
                p = subprocess.run(["./janet_boot", ".", "JANET_PATH", "/usr/local/lib/janet"],
                                   cwd=work, stdout=fh, stderr=subprocess.PIPE)
            if p.returncode != 0 or os.path.getsize(os.path.join(work, "janet.c")) < 100000:
                raise BuildError("janet_boot failed: " + p.stderr.decode(errors="replace")[-3000:])
            tmp = out + ".tmp%d" % os.getpid()
            shutil.rmtree(tmp, ignore_errors=True)
            os.makedirs(tmp)
            shutil.move(os.path.join(work, "janet.c"), os.path.join(tmp, "janet.c"))
            shutil.copy(os.path.join(work, "src/mainclient/shell.c"), os.path.join(tmp, "shell.c"))
            shutil.copy(os.path.join(work, "src/include/janet.h"), os.path.join(tmp, "janet.h"))
            shutil.copy(os.path.join(work, "src/conf/janetconf.h"), os.path.join(tmp, "janetconf.h"))
            os.rename(tmp, out)
        finally:
            shutil.rmtree(work, ignore_errors=True)
    return out


def janet(flavour):
    """Return path of the janet binary of the given flavour for the current tree."""
    spec = FLAVOURS[flavour]
    sh = source_hash()
    fh = hashlib.sha256((sh + spec["cc"] + " ".join(spec["flags"])).encode()).hexdigest()[:8]
    out = os.path.join(CACHE, "%s-%s-%s" % (flavour, fh, sh))
    exe = os.path.join(out, "janet")
    if os.path.exists(exe):
        return exe
    am = amalgamation(sh)
    with _Lock("%s-%s-%s" % (flavour, fh, sh)):
        if os.path.exists(exe):
            return exe
        work = tempfile.mkdtemp(prefix="verif-build-", dir="/var/tmp")
        log = []
        try:
            flags = spec["flags"] + ["-std=c99", "-I" + am, "-fPIC", "-g", GUARD, "-w", '-DJANET_BUILD="verif"']
            jobs = [(os.path.join(am, "janet.c"), "janet.o"), (os.path.join(am, "shell.c"), "shell.o")]

            def cc(job):
                _run([spec["cc"]] + flags + ["-c", job[0], "-o", job[1]], work, log)

            with ThreadPoolExecutor(2) as ex:
                list(ex.map(cc, jobs))
            _run([spec["cc"]] + flags + ["-rdynamic", "-o", "janet", "janet.o", "shell.o"] + LIBS, work, log)
            tmp = out + ".tmp%d" % os.getpid()
            shutil.rmtree(tmp, ignore_errors=True)
            os.makedirs(tmp)
            shutil.move(os.path.join(work, "janet"), os.path.join(tmp, "janet"))
            os.rename(tmp, out)
        finally:
            shutil.rmtree(work, ignore_errors=True)
    return exe


def native(name, sources, cc="gcc", flags=(), libs=(), with_janet=None):
    """Build a helper from /verif/native (e.g. the LD_PRELOAD shim or a C harness).

    with_janet: flavour whose flags/amalgamation to link against (harness embeds janet.c)."""
    sh = source_hash() if with_janet else "nojanet"
    h = hashlib.sha256()
    for s in sources:
        with open(os.path.join(VERIF, "native", s), "rb") as fhh:
            h.update(fhh.read())
    h.update((cc + " ".join(flags) + " ".join(libs) + str(with_janet)).encode())
    key = "%s-%s-%s" % (name, h.hexdigest()[:8], sh)
    out = os.path.join(CACHE, "native-" + key)
    target = os.path.join(out, name)
    if os.path.exists(target):
        return target
    am = amalgamation(sh) if with_janet else None
    with _Lock("native-" + key):
        if os.path.exists(target):
            return target
        work = tempfile.mkdtemp(prefix="verif-build-", dir="/var/tmp")
        log = []
        try:
            cmd = [cc] + list(flags) + ["-g", "-w", "-o", name]
            cmd += [os.path.join(VERIF, "native", s) for s in sources]
            if am:
                cmd += ["-I" + am, GUARD, '-DJANET_BUILD="verif"', os.path.join(am, "janet.c")]
            cmd += list(libs)
            _run(cmd, work, log)
            tmp = out + ".tmp%d" % os.getpid()
            shutil.rmtree(tmp, ignore_errors=True)
            os.makedirs(tmp)
            shutil.move(os.path.join(work, name), os.path.join(tmp, name))
            os.rename(tmp, out)
        finally:
            shutil.rmtree(work, ignore_errors=True)
    return target


if __name__ == "__main__":
    t = time.time()
    for fl in sys.argv[1:] or ["plain"]:
        print(fl, janet(fl), "%.1fs" % (time.time() - t))
