"""Reference evaluator for a subset of Janet (C02) over S-expressions, plus a program
generator and a position-tracking emitter. The evaluator is an environment-passing
interpreter written from the language rules; it knows nothing about bytecode."""
from vf.canon import Kw, Tup, canon


# ---------------------------------------------------------------- S-expression helpers
class K(str):
    """keyword literal"""


class Sy(str):
    """symbol"""


def B(*items):
    return ("B", list(items))


def A(*items):
    return ("A", list(items))


def S(*pairs):
    return ("S", list(pairs))


class JanetError(Exception):
    def __init__(self, value):
        self.value = value


class BreakEx(Exception):
    pass


class Box:
    __slots__ = ("v",)

    def __init__(self, v):
        self.v = v


class PStruct:
    def __init__(self, pairs):
        self.d = {}
        for k, v in pairs:
            if v is not None and k is not None:
                self.d[canon(k)] = (k, v)

    def get(self, k):
        e = self.d.get(canon(k))
        return e[1] if e else None


class Closure:
    def __init__(self, name, params, body, env):
        self.name, self.params, self.body, self.env = name, params, body, env


class Env:
    """A lexical scope. Definitions are kept in order, so that a closure can be given a view of the scope as it was when the
    closure was created: a name declared later in the same scope is not visible to it (it refers to the outer binding)."""
    def __init__(self, parent=None):
        self.order = []          # [(name, value)] in definition order
        self.parent = parent     # Env or EnvView

    def lookup(self, name):
        e = self
        while e is not None:
            v = e.find(name)
            if v is not NOTFOUND:
                return v
            e = e.parent
        raise NameError(name)

    def find(self, name, limit=None):
        order = self.order if limit is None else self.order[:limit]
        for n, v in reversed(order):
            if n == name:
                return v
        return NOTFOUND

    def define(self, name, value):
        self.order.append((name, value))


class _NotFound:
    pass


NOTFOUND = _NotFound()


class EnvView:
    """An Env frozen at a definition count, chained to frozen views of its ancestors."""
    def __init__(self, env, limit, parent):
        self.env, self.limit, self.parent = env, limit, parent

    def find(self, name, limit=None):
        return self.env.find(name, self.limit)

    def lookup(self, name):
        e = self
        while e is not None:
            v = e.find(name)
            if v is not NOTFOUND:
                return v
            e = e.parent
        raise NameError(name)


def snapshot(e):
    if e is None or isinstance(e, EnvView):
        return e
    return EnvView(e, len(e.order), snapshot(e.parent))


def to_canon(v):
    if isinstance(v, PStruct):
        from vf.canon import Struct
        return Struct([(k, to_canon(x)) for k, x in v.d.values()])
    if isinstance(v, Tup):
        return Tup([to_canon(x) for x in v.items], v.bracket)
    if isinstance(v, list):
        return [to_canon(x) for x in v]
    if isinstance(v, Closure):
        return Kw("function")
    return v


class Interp:
    def __init__(self):
        self.log = []
        self.steps = 0
        self.glob = Env()
        g = self.glob
        g.define("LOG", self.log)
        for name in ["+", "-", "*", "<", ">", "<=", ">=", "=", "not=", "not", "mod", "array/push", "length", "get", "in", "tuple", "array", "log", "identity",
                     "first", "last", "even?", "odd?", "nil?", "inc", "dec", "min", "max", "put", "struct", "apply", "array/pop", "sum"]:
            g.define(name, ("builtin", name))

    # ---- helpers
    def truthy(self, v):
        return not (v is None or v is False)

    def builtin(self, name, args):
        if name in ("+", "-", "*", "<", ">", "<=", ">=", "mod", "even?", "odd?", "inc", "dec", "min", "max"):
            for a in args:
                if isinstance(a, bool) or not isinstance(a, int):
                    raise TypeError("non-integer operand for %s: %r" % (name, a))
        if name == "+":
            return sum(args)
        if name == "-":
            return -args[0] if len(args) == 1 else args[0] - sum(args[1:])
        if name == "*":
            r = 1
            for a in args:
                r *= a
            return r
        if name in ("<", ">", "<=", ">="):
            ok = True
            for a, b in zip(args, args[1:]):
                ok = ok and {"<": a < b, ">": a > b, "<=": a <= b, ">=": a >= b}[name]
            return ok
        if name == "=":
            return all(canon(to_canon(a)) == canon(to_canon(args[0])) and (not isinstance(a, list) or a is args[0]) for a in args[1:])
        if name == "not=":
            return not self.builtin("=", args)
        if name == "not":
            return not self.truthy(args[0])
        if name == "mod":
            return args[0] % args[1] if args[1] != 0 else args[0]
        if name == "array/push":
            args[0].extend(args[1:])
            return args[0]
        if name == "array/pop":
            return args[0].pop() if args[0] else None
        if name == "length":
            x = args[0]
            if isinstance(x, Tup):
                return len(x.items)
            if isinstance(x, PStruct):
                return len(x.d)
            return len(x)
        if name in ("get", "in"):
            x, k = args[0], args[1]
            dflt = args[2] if len(args) > 2 else None
            if isinstance(x, PStruct):
                v = x.get(k)
                return dflt if v is None else v
            items = x.items if isinstance(x, Tup) else x
            if isinstance(k, int) and 0 <= k < len(items):
                return items[k]
            if name == "in":
                raise JanetError(Kw("index-error"))
            return dflt
        if name == "put":
            x, k, v = args
            while len(x) <= k:
                x.append(None)
            x[k] = v
            return x
        if name == "tuple":
            return Tup(list(args))
        if name == "array":
            return list(args)
        if name == "struct":
            return PStruct(list(zip(args[0::2], args[1::2])))
        if name == "log":
            self.log.append(args[0])
            return args[0]
        if name == "identity":
            return args[0]
        if name == "first":
            items = args[0].items if isinstance(args[0], Tup) else args[0]
            return items[0] if items else None
        if name == "last":
            items = args[0].items if isinstance(args[0], Tup) else args[0]
            return items[-1] if items else None
        if name == "even?":
            return args[0] % 2 == 0
        if name == "odd?":
            return args[0] % 2 == 1
        if name == "nil?":
            return args[0] is None
        if name == "inc":
            return args[0] + 1
        if name == "dec":
            return args[0] - 1
        if name == "min":
            return min(args)
        if name == "max":
            return max(args)
        if name == "sum":
            items = args[0].items if isinstance(args[0], Tup) else args[0]
            return sum(items)
        if name == "apply":
            f = args[0]
            last = args[-1]
            items = last.items if isinstance(last, Tup) else last
            return self.apply(f, list(args[1:-1]) + list(items))
        raise NotImplementedError(name)

    def apply(self, f, args):
        if isinstance(f, tuple) and f and f[0] == "builtin":
            return self.builtin(f[1], args)
        if isinstance(f, Closure):
            env = Env(f.env)
            if f.name:
                env.define(f.name, f)
            self.bind_params(f.params, args, env)
            r = None
            for form in f.body:
                r = self.ev(form, env)
            return r
        raise JanetError(Kw("not-callable"))

    def bind_params(self, params, args, env):
        i = 0
        mode = "req"
        n = len(params)
        pi = 0
        while pi < n:
            p = params[pi]
            if p == "&opt":
                mode = "opt"
            elif p == "&":
                rest = list(args[i:])
                self.destructure(params[pi + 1], Tup(rest), env, False)
                i = len(args)
                pi += 1
            elif p == "&keys":
                kv = args[i:]
                self.destructure(params[pi + 1], PStruct(list(zip(kv[0::2], kv[1::2]))), env, False)
                i = len(args)
                pi += 1
            elif p == "&named":
                kv = args[i:]
                st = PStruct(list(zip(kv[0::2], kv[1::2])))
                for q in params[pi + 1:]:
                    env.define(q, st.get(Kw(q)))
                i = len(args)
                pi = n
            else:
                if i < len(args):
                    self.destructure(p, args[i], env, False)
                elif mode == "opt":
                    self.destructure(p, None, env, False)
                else:
                    raise JanetError(Kw("arity"))
                i += 1
            pi += 1
        if i < len(args):
            raise JanetError(Kw("arity"))

    def destructure(self, pat, value, env, is_var):
        if isinstance(pat, str):
            env.define(pat, Box(value) if is_var else value)
            return
        if pat[0] in ("B", "A"):
            items = value.items if isinstance(value, Tup) else (value if isinstance(value, list) else [])
            ps = pat[1]
            i = 0
            pi = 0
            while pi < len(ps):
                p = ps[pi]
                if p == "&":
                    self.destructure(ps[pi + 1], Tup(list(items[i:])), env, is_var)
                    return
                self.destructure(p, items[i] if i < len(items) else None, env, is_var)
                i += 1
                pi += 1
            return
        if pat[0] == "S":
            for k, p in pat[1]:
                kk = self.ev(k, env)
                v = value.get(kk) if isinstance(value, PStruct) else None
                self.destructure(p, v, env, is_var)
            return
        raise NotImplementedError(pat)

    # ---- evaluation
    def ev(self, x, env):
        self.steps += 1
        if self.steps > 400000:
            raise RuntimeError("budget")
        if x is None or x is True or x is False or isinstance(x, int):
            return x
        if isinstance(x, K):
            return Kw(str(x))
        if isinstance(x, bytes):
            return x
        if isinstance(x, str):
            v = env.lookup(x)
            return v.v if isinstance(v, Box) else v
        if isinstance(x, tuple):
            tag = x[0]
            if tag == "B":
                return Tup(self.ev_items(x[1], env), True)
            if tag == "A":
                return self.ev_items(x[1], env)
            if tag == "S":
                return PStruct([(self.ev(k, env), self.ev(v, env)) for k, v in x[1]])
            raise NotImplementedError(tag)
        # list form
        if not x:
            return Tup([])
        head = x[0]
        if head == "MARK":
            return self.ev(x[2], env)
        if isinstance(head, str) and not isinstance(head, K):
            m = getattr(self, "sf_" + SPECIAL.get(head, ""), None) if head in SPECIAL else None
            if m:
                return m(x, env)
        f = self.ev(head, env)
        args = self.ev_items(x[1:], env)
        return self.apply(f, args)

    def ev_items(self, items, env):
        out = []
        for it in items:
            if isinstance(it, list) and it and it[0] == "splice":
                v = self.ev(it[1], env)
                out.extend(v.items if isinstance(v, Tup) else v)
            else:
                out.append(self.ev(it, env))
        return out

    def block(self, forms, env):
        r = None
        for f in forms:
            r = self.ev(f, env)
        return r

    def sf_def(self, x, env):
        v = self.ev(x[2], env)
        self.destructure(x[1], v, env, x[0] == "var")
        return v

    def sf_set(self, x, env):
        b = env.lookup(x[1])
        v = self.ev(x[2], env)
        b.v = v
        return v

    def sf_do(self, x, env):
        return self.block(x[1:], Env(env))

    def sf_upscope(self, x, env):
        return self.block(x[1:], env)

    def sf_if(self, x, env):
        if self.truthy(self.ev(x[1], env)):
            return self.ev(x[2], Env(env))
        return self.ev(x[3], Env(env)) if len(x) > 3 else None

    def sf_while(self, x, env):
        try:
            while self.truthy(self.ev(x[1], env)):
                self.block(x[2:], Env(env))
        except BreakEx:
            pass
        return None

    def sf_break(self, x, env):
        raise BreakEx()

    def sf_fn(self, x, env):
        i = 1
        name = None
        if isinstance(x[1], str):
            name = x[1]
            i = 2
        params = x[i][1]
        return Closure(name, params, x[i + 1:], snapshot(env))

    def sf_defn(self, x, env):
        c = Closure(x[1], x[2][1], x[3:], snapshot(env))
        env.define(x[1], c)
        return c

    def sf_quote(self, x, env):
        return self.quote(x[1])

    def quote(self, q):
        if isinstance(q, list):
            return Tup([self.quote(e) for e in q])
        if isinstance(q, tuple) and q[0] == "B":
            return Tup([self.quote(e) for e in q[1]], True)
        if isinstance(q, K):
            return Kw(str(q))
        if isinstance(q, str):
            from vf.canon import Sym
            return Sym(q)
        return q

    def sf_quasiquote(self, x, env):
        return self.qq(x[1], env)

    def qq(self, q, env):
        if isinstance(q, list):
            if q and q[0] == "unquote":
                return self.ev(q[1], env)
            out = []
            for e in q:
                if isinstance(e, list) and e and e[0] == "unquote" and isinstance(e[1], list) and e[1] and e[1][0] == "splice":
                    v = self.ev(e[1][1], env)
                    out.extend(v.items if isinstance(v, Tup) else v)
                else:
                    out.append(self.qq(e, env))
            return Tup(out)
        if isinstance(q, tuple) and q[0] == "B":
            return Tup([self.qq(e, env) for e in q[1]], True)
        return self.quote(q)

    def sf_let(self, x, env):
        e = Env(env)
        bs = x[1][1]
        for i in range(0, len(bs), 2):
            self.destructure(bs[i], self.ev(bs[i + 1], e), e, False)
        return self.block(x[2:], e)

    def sf_when(self, x, env):
        if self.truthy(self.ev(x[1], env)):
            return self.block(x[2:], Env(env))
        return None

    def sf_unless(self, x, env):
        if not self.truthy(self.ev(x[1], env)):
            return self.block(x[2:], Env(env))
        return None

    def sf_cond(self, x, env):
        cl = x[1:]
        i = 0
        while i + 1 < len(cl):
            if self.truthy(self.ev(cl[i], env)):
                return self.ev(cl[i + 1], Env(env))
            i += 2
        if i < len(cl):
            return self.ev(cl[i], Env(env))
        return None

    def sf_case(self, x, env):
        v = self.ev(x[1], env)
        cl = x[2:]
        i = 0
        while i + 1 < len(cl):
            if self.builtin("=", [v, self.ev(cl[i], env)]):
                return self.ev(cl[i + 1], Env(env))
            i += 2
        if i < len(cl):
            return self.ev(cl[i], Env(env))
        return None

    def sf_and(self, x, env):
        r = True
        for e in x[1:]:
            r = self.ev(e, env)
            if not self.truthy(r):
                return r
        return r

    def sf_or(self, x, env):
        r = None
        for e in x[1:]:
            r = self.ev(e, env)
            if self.truthy(r):
                return r
        return r

    def sf_for(self, x, env):
        lo = self.ev(x[2], env)
        hi = self.ev(x[3], env)
        try:
            i = lo
            while i < hi:
                e = Env(env)
                e.define(x[1], i)
                self.block(x[4:], e)
                i += 1
        except BreakEx:
            pass
        return None

    def sf_each(self, x, env):
        seq = self.ev(x[2], env)
        items = list(seq.items if isinstance(seq, Tup) else seq)
        try:
            for it in items:
                e = Env(env)
                self.destructure(x[1], it, e, False)
                self.block(x[3:], e)
        except BreakEx:
            pass
        return None

    def loop_gen(self, spec, env, body_fn):
        """spec: list of [binding :verb arg ...] and [:when c] / [:let [...]] / [:while c] clauses (already grouped)."""
        if not spec:
            body_fn(env)
            return True
        head = spec[0]
        rest = spec[1:]
        if head[0] == ":when":
            if self.truthy(self.ev(head[1], env)):
                return self.loop_gen(rest, env, body_fn)
            return True
        if head[0] == ":while":
            if self.truthy(self.ev(head[1], env)):
                return self.loop_gen(rest, env, body_fn)
            return False
        if head[0] == ":let":
            e = Env(env)
            bs = head[1][1]
            for i in range(0, len(bs), 2):
                self.destructure(bs[i], self.ev(bs[i + 1], e), e, False)
            return self.loop_gen(rest, e, body_fn)
        if head[0] == ":repeat":
            n = self.ev(head[1], env)
            for _ in range(n):
                if not self.loop_gen(rest, env, body_fn):
                    break
            return True
        name, verb, arg = head
        if verb == ":range":
            a = self.ev_items(arg[1], env)
            lo, hi = (a[0], a[1]) if len(a) >= 2 else (0, a[0])
            step = a[2] if len(a) > 2 else 1
            i = lo
            while i < hi:
                e = Env(env)
                e.define(name, i)
                if not self.loop_gen(rest, e, body_fn):
                    break
                i += step
        elif verb == ":in":
            seq = self.ev(arg, env)
            for it in list(seq.items if isinstance(seq, Tup) else seq):
                e = Env(env)
                self.destructure(name, it, e, False)
                if not self.loop_gen(rest, e, body_fn):
                    break
        elif verb == ":down-to":
            a = self.ev_items(arg[1], env)
            i = a[0]
            while i >= a[1]:
                e = Env(env)
                e.define(name, i)
                if not self.loop_gen(rest, e, body_fn):
                    break
                i -= 1
        else:
            raise NotImplementedError(verb)
        return True

    def parse_loop_head(self, head):
        items = head[1]
        spec = []
        i = 0
        while i < len(items):
            it = items[i]
            if isinstance(it, K) and str(it) in ("when", "while", "let", "repeat"):
                spec.append([":" + str(it), items[i + 1]])
                i += 2
            else:
                spec.append([it, ":" + str(items[i + 1]), items[i + 2]])
                i += 3
        return spec

    def sf_loop(self, x, env):
        spec = self.parse_loop_head(x[1])
        body = x[2:]
        try:
            self.loop_gen(spec, env, lambda e: self.block(body, Env(e)))
        except BreakEx:
            pass
        return None

    def sf_seq(self, x, env):
        spec = self.parse_loop_head(x[1])
        out = []
        body = x[2:]
        self.loop_gen(spec, env, lambda e: out.append(self.block(body, Env(e))))
        return out

    def sf_try(self, x, env):
        try:
            return self.ev(x[1], Env(env))
        except JanetError as ex:
            h = x[2]
            e = Env(env)
            names = h[0][1]
            if names:
                e.define(names[0], ex.value)
            return self.block(h[1:], e)

    def sf_error(self, x, env):
        raise JanetError(self.ev(x[1], env))

    def sf_defer(self, x, env):
        try:
            r = self.block(x[2:], Env(env))
        finally:
            self.ev(x[1], Env(env))
        return r

    def sf_iflet(self, x, env):
        bs = x[1][1]
        e = Env(env)
        for i in range(0, len(bs), 2):
            v = self.ev(bs[i + 1], e)
            if not self.truthy(v):
                return self.ev(x[3], Env(env)) if len(x) > 3 else None
            self.destructure(bs[i], v, e, False)
        return self.ev(x[2], e)

    def sf_whenlet(self, x, env):
        bs = x[1][1]
        e = Env(env)
        for i in range(0, len(bs), 2):
            v = self.ev(bs[i + 1], e)
            if not self.truthy(v):
                return None
            self.destructure(bs[i], v, e, False)
        return self.block(x[2:], e)

    def sf_inc(self, x, env):
        b = env.lookup(x[1])
        b.v = b.v + 1
        return b.v

    def sf_dec(self, x, env):
        b = env.lookup(x[1])
        b.v = b.v - 1
        return b.v

    def sf_pluseq(self, x, env):
        b = env.lookup(x[1])
        b.v = b.v + self.ev(x[2], env)
        return b.v

    def sf_minuseq(self, x, env):
        b = env.lookup(x[1])
        b.v = b.v - self.ev(x[2], env)
        return b.v

    def sf_thread(self, x, env):
        cur = x[1]
        for form in x[2:]:
            if isinstance(form, list):
                cur = [form[0], cur] + form[1:]
            else:
                cur = [form, cur]
        return self.ev(cur, env)


SPECIAL = {"def": "def", "var": "def", "set": "set", "do": "do", "upscope": "upscope", "if": "if", "while": "while", "break": "break", "fn": "fn", "defn": "defn",
           "quote": "quote", "quasiquote": "quasiquote", "let": "let", "when": "when", "unless": "unless", "cond": "cond", "case": "case", "and": "and", "or": "or",
           "for": "for", "each": "each", "loop": "loop", "seq": "seq", "try": "try", "error": "error", "defer": "defer", "if-let": "iflet", "when-let": "whenlet",
           "++": "inc", "--": "dec", "+=": "pluseq", "-=": "minuseq", "->": "thread"}


def evaluate(top_forms):
    """Evaluate top-level forms; returns (canon text of [RESULT LOG]) or ('error', value canon)."""
    it = Interp()
    env = it.glob
    try:
        for f in top_forms:
            it.ev(f, env)
        res = env.lookup("RESULT")
        res = res.v if isinstance(res, Box) else res
        return "ok " + canon(Tup([to_canon(res), [to_canon(v) for v in it.log]]))
    except JanetError as ex:
        return "err " + canon(Tup([to_canon(ex.value), [to_canon(v) for v in it.log]]))


# ---------------------------------------------------------------- emitter with position tracking

class Emitter:
    def __init__(self):
        self.out = []
        self.line = 1
        self.col = 1
        self.marks = {}

    def w(self, s):
        self.out.append(s)
        nl = s.count("\n")
        if nl:
            self.line += nl
            self.col = len(s) - s.rfind("\n")
        else:
            self.col += len(s)

    def emit(self, x):
        if x is None:
            self.w("nil")
        elif x is True:
            self.w("true")
        elif x is False:
            self.w("false")
        elif isinstance(x, int):
            self.w(str(x))
        elif isinstance(x, K):
            self.w(":" + x)
        elif isinstance(x, bytes):
            from vf.canon import jbytes
            self.w(jbytes(x))
        elif isinstance(x, str):
            self.w(x)
        elif isinstance(x, tuple):
            o, c = {"B": ("[", "]"), "A": ("@[", "]"), "S": ("{", "}")}[x[0]]
            self.w(o)
            if x[0] == "S":
                for i, (k, v) in enumerate(x[1]):
                    if i:
                        self.w(" ")
                    self.emit(k)
                    self.w(" ")
                    self.emit(v)
            else:
                for i, e in enumerate(x[1]):
                    if i:
                        self.w(" ")
                    self.emit(e)
            self.w(c)
        elif isinstance(x, list):
            if x and x[0] == "splice":
                self.w(";")
                self.emit(x[1])
                return
            if x and x[0] == "unquote":
                self.w(",")
                self.emit(x[1])
                return
            if x and x[0] == "quasiquote":
                self.w("~")
                self.emit(x[1])
                return
            if x and x[0] == "quote":
                self.w("'")
                self.emit(x[1])
                return
            if x and x[0] == "MARK":
                self.marks[x[1]] = (self.line, self.col)
                self.emit(x[2])
                return
            self.w("(")
            multiline = len(x) > 3 and x[0] in ("do", "fn", "defn", "while", "for", "each", "loop", "let", "when", "try", "defer")
            for i, e in enumerate(x):
                if i:
                    self.w("\n  " if (multiline and i >= 2) else " ")
                self.emit(e)
            self.w(")")
        else:
            raise TypeError(x)

    def text(self):
        return "".join(self.out)
