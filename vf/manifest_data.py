HOOK_COMMITS = ["02f9353", "72e5056", "18a44a3"]
NOTES = ("Runtime monitoring only: every verdict is 'held on the executions observed'. Exit 0 held / 1 violation / 2 harness failure. "
         "Known genuine defects are listed in known_findings.json and printed as KNOWN-FINDING lines.")
NOT_APPLICABLE = {}
CHECKS = {
 "C13": dict(level="exploration", technique="differential oracle: exact rational arithmetic (Python Fraction) vs bits of scanned double; print/scan round-trip monitor",
             text="Generated literals (radix 2..36, hex-p, ties between adjacent doubles, overflow/underflow edges) carry their exact rational value; the scanned double's raw bits must be the exact value or one of its two neighbours. Random/edge doubles must survive %.17g and %j round trips bit-for-bit; integers up to 2^53 print exactly; int64 text round-trips or is rejected.",
             note="Trusts Python's Fraction/nextafter and that buffer/push-float64 copies the double's bytes. Held only on the literals generated."),
}
