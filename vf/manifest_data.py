HOOK_COMMITS = ["02f9353", "72e5056", "18a44a3"]
FIX_COMMITS = []
NOTES = ("Runtime monitoring only: every verdict is 'held on the executions observed'. Exit 0 held / 1 violation / 2 harness failure. "
         "Known genuine defects are listed in known_findings.json and printed as KNOWN-FINDING lines.")
NOT_APPLICABLE = {}
CHECKS = {
 "C03": dict(level="exploration", technique="law monitor over all pairs/triples of a value pool + content equality known by construction; symbol re-interning churn under seeded GC schedules",
             text="Pools of ~60 values, each known by content and built by several routes (every/random insertion order, slices, freeze, table/to-struct, marshal round trip, nil-padded/duplicate-key struct calls) with key sets chosen to collide modulo struct capacity (hashes measured from the binary); janet evaluates =, hash, compare, < <= > >= on all pairs; Python checks reflexivity, symmetry, transitivity (all triples), =>hash, antisymmetry, compare=0 iff =, relational/compare agreement, = vs content, identity types, verif/table-check of every struct. Second phase: thousands of symbols/keywords created, partly dropped, collected, re-interned by bytes and required identical to the live originals.",
             note="Content equality decided in Python by canonical text; NaN excluded. Held on the pools generated."),
 "C12": dict(level="exploration", technique="differential oracle: independent reference PEG interpreter with immutable capture state vs peg/match on ASan+UBSan build; derived entry points checked by repeated matching",
             text="Random grammars over every combinator (depth<=5), biased to failing alternatives that already captured; each (grammar,text,start,args) run as source grammar, compiled peg and marshal-round-tripped peg and compared with vf/model_peg.py (position/nil, captures, raised error); peg/find, find-all, replace, replace-all compared with their definition by repeated matching; AddressSanitizer watches for reads outside the text.",
             note="Reference semantics written from the combinator documentation; if-conditions and look bodies are generated capture-free; only string/int/keyword captures inside accumulate."),
 "C14": dict(level="exploration", technique="differential oracle: Python big-int/IEEE float reference for every (operator, operand pair, type mix, order); crash bisection",
             text="~2.3e5 (quick) / 8e6 (thorough) operator applications over boundary-dense operands in all type mixes (number, int/s64, int/u64, numeric string), function and :method forms, compared with an exact reference implementing the documented conventions (wrap, truncating /, flooring div/mod, mod-by-zero, error on zero division and on operands that do not fit, polymorphic compare over the whole range). A batch that dies is bisected to the killing input.",
             note="Trusts Python arithmetic. C-undefined shift counts and INT64_MIN/-1 wrap-or-raise are out of scope by statement. Held only on generated operands."),
 "C13": dict(level="exploration", technique="differential oracle: exact rational arithmetic (Python Fraction) vs bits of scanned double; print/scan round-trip monitor",
             text="Generated literals (radix 2..36, hex-p, ties between adjacent doubles, overflow/underflow edges) carry their exact rational value; the scanned double's raw bits must be the exact value or one of its two neighbours. Random/edge doubles must survive %.17g and %j round trips bit-for-bit; integers up to 2^53 print exactly; int64 text round-trips or is rejected.",
             note="Trusts Python's Fraction/nextafter and that buffer/push-float64 copies the double's bytes. Held only on the literals generated."),
}
