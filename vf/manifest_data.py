HOOK_COMMITS = ["02f9353", "72e5056", "18a44a3"]
FIX_COMMITS = []
NOTES = ("Runtime monitoring only: every verdict is 'held on the executions observed'. Exit 0 held / 1 violation / 2 harness failure. "
         "Known genuine defects are listed in known_findings.json and printed as KNOWN-FINDING lines.")
NOT_APPLICABLE = {}
CHECKS = {
 "C14": dict(level="exploration", technique="differential oracle: Python big-int/IEEE float reference for every (operator, operand pair, type mix, order); crash bisection",
             text="~2.3e5 (quick) / 8e6 (thorough) operator applications over boundary-dense operands in all type mixes (number, int/s64, int/u64, numeric string), function and :method forms, compared with an exact reference implementing the documented conventions (wrap, truncating /, flooring div/mod, mod-by-zero, error on zero division and on operands that do not fit, polymorphic compare over the whole range). A batch that dies is bisected to the killing input.",
             note="Trusts Python arithmetic. C-undefined shift counts and INT64_MIN/-1 wrap-or-raise are out of scope by statement. Held only on generated operands."),
 "C13": dict(level="exploration", technique="differential oracle: exact rational arithmetic (Python Fraction) vs bits of scanned double; print/scan round-trip monitor",
             text="Generated literals (radix 2..36, hex-p, ties between adjacent doubles, overflow/underflow edges) carry their exact rational value; the scanned double's raw bits must be the exact value or one of its two neighbours. Random/edge doubles must survive %.17g and %j round trips bit-for-bit; integers up to 2^53 print exactly; int64 text round-trips or is rejected.",
             note="Trusts Python's Fraction/nextafter and that buffer/push-float64 copies the double's bytes. Held only on the literals generated."),
}
