"""Reference interpreter for Janet PEGs (C12) and a grammar generator.

The interpreter passes an immutable capture state down and returns a new one,
so "captures of a failed branch vanish" holds by construction and no
save/restore discipline exists that could be forgotten."""
import struct
from collections import namedtuple

from vf.canon import Kw, S64, U64, Tup, Struct, canon, jbytes, emit

St = namedtuple("St", "caps tags scratch mode")  # caps: tuple, tags: tuple of (tag, value), scratch: bytes, mode: 'N'|'A'
EMPTY = St((), (), b"", "N")


class PegError(Exception):
    def __init__(self, value):
        self.value = value


class Budget(Exception):
    pass


def to_string(v):
    """janet_to_string for the value kinds the generator allows inside accumulate."""
    if isinstance(v, bytes):
        return v
    if isinstance(v, bool):
        return b"true" if v else b"false"
    if isinstance(v, int):
        return str(v).encode()
    if isinstance(v, float) and v == int(v):
        return str(int(v)).encode()
    if isinstance(v, Kw):
        return v.b
    if v is None:
        return b""      # like (string nil): a nil capture adds nothing to an accumulated string
    raise ValueError("to_string of %r not modelled" % (v,))


def pushcap(st, v, tag):
    caps, scratch = st.caps, st.scratch
    if st.mode == "A":
        scratch = scratch + to_string(v)
    else:
        caps = caps + (v,)
    return St(caps, st.tags + ((tag, v),), scratch, st.mode)


FUNCS = {
    "f-join": lambda xs: "|".join(canon(x) for x in xs).encode(),
    "f-count": lambda xs: len(xs),
    "f-first": lambda xs: xs[0] if xs else None,
    "f-even": lambda xs: len(xs) % 2 == 0,
    "f-tuple": lambda xs: Tup(list(xs)),
}

FUNC_DEFS = r'''
(defn f-join [& xs] (string/join (map canon xs) "|"))
(defn f-count [& xs] (length xs))
(defn f-first [& xs] (get xs 0))
(defn f-even [& xs] (even? (length xs)))
(defn f-tuple [& xs] (tuple ;xs))
'''

BUILTINS = {
    "d": [(48, 57)], "a": [(97, 122), (65, 90)], "w": [(97, 122), (65, 90), (48, 57)],
    "h": [(48, 57), (97, 102), (65, 70)],
    "s": [(c, c) for c in b" \t\r\n\0\f\v"],
}


class Machine:
    def __init__(self, rules, text, args, budget=200000):
        self.rules = rules          # name -> node (grammar struct) ; 'main' is entry
        self.scopes = [rules]       # lexical scopes of nested grammars, innermost last
        self.text = text
        self.args = args
        self.budget = budget

    def linecol(self, pos):
        last = self.text.rfind(b"\n", 0, pos)
        line = self.text.count(b"\n", 0, pos) + 1
        col = pos - last if last >= 0 else pos + 1
        return line, col

    def run(self, node, pos, st, end):
        self.budget -= 1
        if self.budget < 0:
            raise Budget()
        k = node[0]
        text = self.text
        if k == "lit":
            b = node[1]
            if pos + len(b) > end or text[pos:pos + len(b)] != b:
                return None
            return pos + len(b), st
        if k == "n":
            n = node[1]
            if n >= 0:
                return (pos + n, st) if pos + n <= end else None
            return (pos, st) if pos + (-n) > end else None
        if k == "range":
            if pos < end and any(lo <= text[pos] <= hi for lo, hi in node[1]):
                return pos + 1, st
            return None
        if k == "set":
            if pos < end and text[pos] in node[1]:
                return pos + 1, st
            return None
        if k == "builtin":
            name = node[1]
            base = name.rstrip("+*")
            neg = base.isupper()
            ranges = BUILTINS[base.lower()]

            def one(p):
                if p >= end:
                    return False
                hit = any(lo <= text[p] <= hi for lo, hi in ranges)
                return (not hit) if neg else hit
            if name.endswith("+") or name.endswith("*"):
                p = pos
                while one(p):
                    p += 1
                if name.endswith("+") and p == pos:
                    return None
                return p, st
            return (pos + 1, st) if one(pos) else None
        if k == "look":
            p = pos + node[1]
            if p < 0 or p > end:
                return None
            r = self.run(node[2], p, st, end)
            if r is None:
                return None
            return pos, r[1]
        if k == "choice":
            for alt in node[1]:
                r = self.run(alt, pos, st, end)
                if r is not None:
                    return r
            return None
        if k == "seq":
            cur = (pos, st)
            for p in node[1]:
                cur = self.run(p, cur[0], cur[1], end)
                if cur is None:
                    return None
            return cur
        if k == "if":
            r = self.run(node[1], pos, st, end)
            if r is None:
                return None
            return self.run(node[2], pos, r[1], end)
        if k == "ifnot":
            r = self.run(node[1], pos, st, end)
            if r is not None:
                return None
            return self.run(node[2], pos, st, end)
        if k == "not":
            r = self.run(node[1], pos, st, end)
            return None if r is not None else (pos, st)
        if k == "between":
            lo, hi, p = node[1], node[2], node[3]
            count = 0
            cur = (pos, st)
            while hi is None or count < hi:
                r = self.run(p, cur[0], cur[1], end)
                if r is None or (r[0] == cur[0] and hi is None):
                    break
                count += 1
                cur = r
            if count < lo:
                return None
            return cur
        if k in ("to", "thru"):
            p = pos
            while p <= end:
                r = self.run(node[1], p, st, end)
                if r is not None:
                    if k == "to":
                        return p, st
                    return r
                p += 1
            return None
        if k == "backref":
            for tag, v in reversed(st.tags):
                if tag == node[1]:
                    return pos, pushcap(st, v, node[2])
            return None
        if k == "position":
            return pos, pushcap(st, pos, node[1])
        if k == "line":
            return pos, pushcap(st, self.linecol(pos)[0], node[1])
        if k == "column":
            return pos, pushcap(st, self.linecol(pos)[1], node[1])
        if k == "argument":
            v = self.args[node[1]] if node[1] < len(self.args) else None
            return pos, pushcap(st, v, node[2])
        if k == "constant":
            return pos, pushcap(st, node[1], node[2])
        if k == "capture":
            r = self.run(node[1], pos, st, end)
            if r is None:
                return None
            return r[0], pushcap(r[1], text[pos:r[0]], node[2])
        if k == "number":
            r = self.run(node[1], pos, st, end)
            if r is None:
                return None
            digits = text[pos:r[0]]
            if not digits or not digits.isdigit():
                return None
            return r[0], pushcap(r[1], int(digits), node[3])
        if k == "accumulate":
            tag = node[2]
            if tag is None and st.mode == "A":
                return self.run(node[1], pos, st, end)
            inner = St(st.caps, st.tags, st.scratch, "A")
            r = self.run(node[1], pos, inner, end)
            if r is None:
                return None
            cap = r[1].scratch[len(st.scratch):]
            out = St(st.caps, r[1].tags, st.scratch, st.mode)
            return r[0], pushcap(out, cap, tag)
        if k == "drop":
            r = self.run(node[1], pos, st, end)
            if r is None:
                return None
            return r[0], st
        if k == "onlytags":
            r = self.run(node[1], pos, st, end)
            if r is None:
                return None
            return r[0], St(st.caps, r[1].tags, st.scratch, st.mode)
        if k == "group":
            inner = St(st.caps, st.tags, st.scratch, "N")
            r = self.run(node[1], pos, inner, end)
            if r is None:
                return None
            sub = list(r[1].caps[len(st.caps):])
            out = St(st.caps, r[1].tags, st.scratch, st.mode)
            return r[0], pushcap(out, sub, node[2])
        if k == "nth":
            inner = St(st.caps, st.tags, st.scratch, "N")
            r = self.run(node[2], pos, inner, end)
            if r is None:
                return None
            sub = r[1].caps[len(st.caps):]
            if len(sub) <= node[1]:
                return None
            out = St(st.caps, r[1].tags, st.scratch, st.mode)
            return r[0], pushcap(out, sub[node[1]], node[3])
        if k in ("replace", "cmt"):
            inner = St(st.caps, st.tags, st.scratch, "N")
            r = self.run(node[1], pos, inner, end)
            if r is None:
                return None
            sub = r[1].caps[len(st.caps):]
            subst = node[2]
            if subst[0] == "const":
                cap = subst[1]
            elif subst[0] == "tbl":
                allc = r[1].caps
                cap = None
                if allc:
                    key = canon(allc[-1])
                    for kk, vv in subst[1]:
                        if canon(kk) == key:
                            cap = vv
            else:
                cap = FUNCS[subst[1]](list(sub))
            out = St(st.caps, r[1].tags, st.scratch, st.mode)
            if k == "cmt" and (cap is None or cap is False):
                return None
            return r[0], pushcap(out, cap, node[3])
        if k == "error":
            inner = St(st.caps, st.tags, st.scratch, "N")
            r = self.run(node[1], pos, inner, end)
            if r is None:
                return None
            if len(r[1].caps) > len(st.caps):
                raise PegError(("val", r[1].caps[-1]))
            raise PegError(("generic",) + self.linecol(pos))
        if k == "backmatch":
            for tag, v in reversed(st.tags):
                if tag == node[1]:
                    if not isinstance(v, bytes):
                        return None
                    if pos + len(v) > end or text[pos:pos + len(v)] != v:
                        return None
                    return pos + len(v), st
            return None
        if k == "lenprefix":
            inner = St(st.caps, st.tags, st.scratch, "N")
            r = self.run(node[1], pos, inner, end)
            if r is None:
                return None
            sub = r[1].caps[len(st.caps):]
            if not sub or not isinstance(sub[0], int) or isinstance(sub[0], bool) or not (-2 ** 31 <= sub[0] < 2 ** 31):
                return None
            cur = (r[0], st)
            for _ in range(sub[0]):
                cur = self.run(node[2], cur[0], cur[1], end)
                if cur is None:
                    return None
            return cur
        if k == "readint":
            width, signed, be = node[1], node[2], node[3]
            if pos + width > end:
                return None
            raw = text[pos:pos + width]
            v = int.from_bytes(raw, "big" if be else "little", signed=signed)
            if width > 6:
                v = S64(v) if signed else U64(v)
            return pos + width, pushcap(st, v, node[4])
        if k == "unref":
            r = self.run(node[1], pos, st, end)
            if r is None:
                return None
            base = len(st.tags)
            new = r[1].tags[base:]
            if node[2] is None:
                kept = ()
            else:
                kept = tuple(t for t in new if t[0] != node[2])
            return r[0], St(r[1].caps, r[1].tags[:base] + kept, r[1].scratch, r[1].mode)
        if k == "sub":
            w = self.run(node[1], pos, st, end)
            if w is None:
                return None
            r = self.run(node[2], pos, w[1], w[0])
            if r is None:
                return None
            return w[0], r[1]
        if k == "til":
            p = pos
            found = None
            while p <= end:
                r = self.run(node[1], p, st, end)
                if r is not None:
                    found = (p, r[0])
                    break
                p += 1
            if found is None:
                return None
            r = self.run(node[2], pos, st, found[0])
            if r is None:
                return None
            return found[1], r[1]
        if k == "split":
            cur_st = st
            chunk_start = pos
            p = pos
            while p <= end:
                chunk_end = p
                while p <= end:
                    chunk_end = p
                    r = self.run(node[1], p, cur_st, end)
                    if r is not None:
                        p = r[0]
                        break
                    p += 1
                r = self.run(node[2], chunk_start, cur_st, chunk_end)
                if r is None:
                    return None
                cur_st = r[1]
                if p == chunk_start:
                    return None
                chunk_start = p
            return end, cur_st
        if k == "ref":
            # lexical scoping: the rule body runs in the scope that defines it, not in the scope of the reference
            for i in range(len(self.scopes) - 1, -1, -1):
                if node[1] in self.scopes[i]:
                    saved = self.scopes
                    self.scopes = saved[:i + 1]
                    try:
                        return self.run(self.scopes[i][node[1]], pos, st, end)
                    finally:
                        self.scopes = saved
            raise ValueError("unbound rule " + node[1])
        if k == "grammar":
            saved = self.scopes
            self.scopes = saved + [node[1]]
            try:
                return self.run(node[1]["main"], pos, st, end)
            finally:
                self.scopes = saved
        raise ValueError("unknown node " + k)


def match(rules, text, start=0, args=()):
    """Returns ('ok', caps list) | ('fail',) | ('err', kind...) | ('budget',)"""
    m = Machine(rules, text, list(args))
    try:
        r = m.run(rules["main"], start, EMPTY, len(text))
    except PegError as e:
        return ("err",) + tuple(e.value)
    except (Budget, RecursionError):
        return ("budget",)
    except ValueError as e:
        return ("unmodelled", str(e))
    if r is None:
        return ("fail",)
    return ("ok", list(r[1].caps), r[0])


# ---------------------------------------------------------------- emission

def tag_txt(tag):
    return " :" + tag if tag else ""


def emit_node(n):
    k = n[0]
    if k == "lit":
        return jbytes(n[1])
    if k == "n":
        return str(n[1])
    if k == "range":
        return "(range " + " ".join(jbytes(bytes([lo, hi])) for lo, hi in n[1]) + ")"
    if k == "set":
        return "(set " + jbytes(n[1]) + ")"
    if k == "builtin":
        return ":" + n[1]
    if k == "look":
        return "(look %d %s)" % (n[1], emit_node(n[2]))
    if k == "choice":
        return "(+ " + " ".join(emit_node(x) for x in n[1]) + ")"
    if k == "seq":
        return "(* " + " ".join(emit_node(x) for x in n[1]) + ")"
    if k == "if":
        return "(if %s %s)" % (emit_node(n[1]), emit_node(n[2]))
    if k == "ifnot":
        return "(if-not %s %s)" % (emit_node(n[1]), emit_node(n[2]))
    if k == "not":
        return "(not %s)" % emit_node(n[1])
    if k == "between":
        lo, hi, p = n[1], n[2], emit_node(n[3])
        style = n[4] if len(n) > 4 else 0
        if hi is None:
            if lo == 0 and style == 0:
                return "(any %s)" % p
            if lo == 1 and style == 0:
                return "(some %s)" % p
            return "(at-least %d %s)" % (lo, p)
        if lo == 0 and hi == 1 and style == 0:
            return "(opt %s)" % p
        if lo == 0 and style == 0:
            return "(at-most %d %s)" % (hi, p)
        if lo == hi and style == 0:
            return "(repeat %d %s)" % (lo, p)
        if lo == hi and style == 1:
            return "(%d %s)" % (lo, p)
        return "(between %d %d %s)" % (lo, hi, p)
    if k == "to":
        return "(to %s)" % emit_node(n[1])
    if k == "thru":
        return "(thru %s)" % emit_node(n[1])
    if k == "backref":
        return "(-> :%s%s)" % (n[1], tag_txt(n[2]))
    if k == "position":
        return "(position%s)" % tag_txt(n[1]) if n[1] else "($)"
    if k == "line":
        return "(line%s)" % tag_txt(n[1])
    if k == "column":
        return "(column%s)" % tag_txt(n[1])
    if k == "argument":
        return "(argument %d%s)" % (n[1], tag_txt(n[2]))
    if k == "constant":
        return "(constant %s%s)" % (emit_const(n[1]), tag_txt(n[2]))
    if k == "capture":
        return "(%s %s%s)" % ("capture" if n[2] else "<-", emit_node(n[1]), tag_txt(n[2]))
    if k == "number":
        if n[3]:
            return "(number %s nil%s)" % (emit_node(n[1]), tag_txt(n[3]))
        return "(number %s)" % emit_node(n[1])
    if k == "accumulate":
        return "(%s %s%s)" % ("accumulate" if n[2] else "%", emit_node(n[1]), tag_txt(n[2]))
    if k == "drop":
        return "(drop %s)" % emit_node(n[1])
    if k == "onlytags":
        return "(only-tags %s)" % emit_node(n[1])
    if k == "group":
        return "(group %s%s)" % (emit_node(n[1]), tag_txt(n[2]))
    if k == "nth":
        return "(nth %d %s%s)" % (n[1], emit_node(n[2]), tag_txt(n[3]))
    if k in ("replace", "cmt"):
        s = n[2]
        if s[0] == "const":
            st = emit_const(s[1])
        elif s[0] == "tbl":
            st = "{" + " ".join(emit_const(a) + " " + emit_const(b) for a, b in s[1]) + "}"
        else:
            st = "," + s[1]
        return "(%s %s %s%s)" % ("replace" if k == "replace" else "cmt", emit_node(n[1]), st, tag_txt(n[3]))
    if k == "error":
        return "(error %s)" % emit_node(n[1])
    if k == "backmatch":
        return "(backmatch :%s)" % n[1]
    if k == "lenprefix":
        return "(lenprefix %s %s)" % (emit_node(n[1]), emit_node(n[2]))
    if k == "readint":
        name = ("int" if n[2] else "uint") + ("-be" if n[3] else "")
        return "(%s %d%s)" % (name, n[1], tag_txt(n[4]))
    if k == "unref":
        return "(unref %s%s)" % (emit_node(n[1]), tag_txt(n[2]))
    if k == "sub":
        return "(sub %s %s)" % (emit_node(n[1]), emit_node(n[2]))
    if k == "til":
        return "(til %s %s)" % (emit_node(n[1]), emit_node(n[2]))
    if k == "split":
        return "(split %s %s)" % (emit_node(n[1]), emit_node(n[2]))
    if k == "grammar":
        return "{" + " ".join(":%s %s" % (kk, emit_node(v)) for kk, v in n[1].items()) + "}"
    if k == "ref":
        return ":" + n[1]
    raise ValueError(k)


def emit_const(v):
    if isinstance(v, Kw):
        return ":" + v.b.decode()
    if isinstance(v, bytes):
        return jbytes(v)
    if v is None:
        return "nil"
    if v is True:
        return "true"
    if v is False:
        return "false"
    return str(v)


def emit_grammar(rules):
    if list(rules) == ["main"]:
        return "~" + emit_node(rules["main"])
    return "~{" + " ".join(":%s %s" % (k, emit_node(v)) for k, v in rules.items()) + "}"


# ---------------------------------------------------------------- generation

ALPHA = [b"a", b"b", b"1", b"\n", b"\x00", b"\xff", b"x"]
TAGS = ["t", "u"]


class Gen:
    def __init__(self, rng):
        self.rng = rng
        self.rule_names = []
        self.features = set()

    def lit(self):
        r = self.rng
        n = r.choice([1, 1, 1, 2, 2, 3])
        return ("lit", b"".join(r.choice(ALPHA[:5] if r.random() < 0.85 else ALPHA) for _ in range(n)))

    def atom(self, consuming=False):
        r = self.rng
        c = r.random()
        if c < 0.45:
            return self.lit()
        if c < 0.55:
            return ("n", r.choice([1, 1, 2, 3]) if consuming else r.choice([0, 1, 1, 2, 3, -1, -2]))
        if c < 0.65:
            return ("range", [(97, 98)] if r.random() < 0.5 else [(48, 57), (97, 97)])
        if c < 0.75:
            return ("set", r.choice([b"ab", b"a1", b"b\n", b"\x00\xff", b"ax"]))
        if c < 0.9:
            return ("builtin", r.choice(["d", "a", "w", "s", "D", "S", "A", "d+", "a+", "w+"] + ([] if consuming else ["d*", "a*", "s*"])))
        return self.lit()

    def tag(self, p=0.3):
        if self.rng.random() < p:
            self.features.add("tag")
            return self.rng.choice(TAGS)
        return None

    def nocap(self, depth):
        """capture-free, error-free pattern (for if conditions / look bodies)."""
        r = self.rng
        if depth <= 0 or r.random() < 0.4:
            return self.atom()
        c = r.choice(["seq", "choice", "not", "between", "to", "thru", "ifnot", "look"])
        if c == "seq":
            return ("seq", [self.nocap(depth - 1) for _ in range(r.choice([2, 2, 3]))])
        if c == "choice":
            return ("choice", [self.nocap(depth - 1) for _ in range(r.choice([2, 2, 3]))])
        if c == "not":
            return ("not", self.nocap(depth - 1))
        if c == "between":
            return self.between(self.nocap(depth - 1))
        if c == "to":
            return ("to", self.nocap(depth - 1))
        if c == "thru":
            return ("thru", self.nocap(depth - 1))
        if c == "ifnot":
            return ("ifnot", self.nocap(depth - 1), self.nocap(depth - 1))
        return ("look", r.choice([0, 1, -1, 2]), self.nocap(depth - 1))

    def between(self, p):
        r = self.rng
        lo, hi = r.choice([(0, None), (0, None), (1, None), (0, 1), (0, 1), (2, None), (0, 2), (1, 3), (2, 2), (3, 3), (0, 3)])
        self.features.add("repeat")
        return ("between", lo, hi, p, r.choice([0, 0, 1]))

    def capturing_fail(self, depth, in_acc):
        """A sequence that first captures and then (likely) fails: the shape where state restoration matters."""
        r = self.rng
        self.features.add("capture-then-fail")
        if r.random() < 0.25:
            # a construct that switches the capture mode and fails before it would switch back (length pattern or body of a lenprefix)
            self.features.add("lenprefix")
            self.features.add("mode-switch-then-fail")
            num = ("number", ("builtin", "d"), None, None)
            lenp = r.choice([num, ("seq", [num, ("lit", b"zz")]), ("seq", [("capture", self.atom(), None), num]), ("readint", 1, False, False, None)])
            body = r.choice([self.atom(), ("lit", b"zz"), ("capture", self.atom(), None), ("n", 30)])
            return ("lenprefix", lenp, body)
        cap = self.capture_node(depth - 1, in_acc)
        return ("seq", [cap, r.choice([("lit", b"zz"), ("lit", b"q"), ("n", 30), ("not", ("n", 0)), self.lit()])])

    def capture_node(self, depth, in_acc):
        r = self.rng
        inner = self.pat(depth - 1, in_acc) if depth > 0 and r.random() < 0.5 else self.atom()
        kinds = ["capture", "capture", "capture", "constant", "position", "accumulate", "replace-const", "backref", "number", "readint"]
        if not in_acc:
            kinds += ["group", "group", "nth", "replace-fn", "replace-tbl", "cmt", "argument", "line", "column", "readint-wide", "const-other"]
        c = r.choice(kinds)
        self.features.add(c)
        if c == "capture":
            return ("capture", inner, self.tag())
        if c == "constant":
            return ("constant", r.choice([b"K", b"", 7, 0, Kw("kw")]), self.tag())
        if c == "const-other":
            return ("constant", r.choice([None, True, False, -3]), self.tag())
        if c == "position":
            return ("position", self.tag(0.2))
        if c == "line":
            return ("line", self.tag(0.1))
        if c == "column":
            return ("column", self.tag(0.1))
        if c == "argument":
            return ("argument", r.choice([0, 1, 2]), self.tag(0.2))
        if c == "accumulate":
            return ("accumulate", self.pat(depth - 1, True) if depth > 0 else ("capture", self.atom(), None), self.tag())
        if c == "replace-const":
            return ("replace", inner, ("const", r.choice([b"R", b"", b"rr"])), self.tag(0.2))
        if c == "backref":
            self.features.add("tag")
            return ("backref", r.choice(TAGS), self.tag(0.2))
        if c == "number":
            if in_acc:
                return ("capture", ("builtin", "d+"), self.tag())
            return ("number", ("builtin", r.choice(["d+", "d"])), None, self.tag(0.2))
        if c == "readint":
            return ("readint", r.choice([1, 1, 2, 3, 4]), r.random() < 0.5, r.random() < 0.5, self.tag(0.2))
        if c == "readint-wide":
            return ("readint", r.choice([5, 6, 7, 8]), r.random() < 0.5, r.random() < 0.5, self.tag(0.2))
        if c == "group":
            return ("group", self.pat(depth - 1, False) if depth > 0 else inner, self.tag())
        if c == "nth":
            return ("nth", r.choice([0, 0, 1, 2]), self.pat(depth - 1, False) if depth > 0 else ("capture", inner, None), self.tag(0.2))
        if c == "replace-fn":
            return ("replace", self.pat(depth - 1, False) if depth > 0 else inner, ("fn", r.choice(["f-join", "f-count", "f-first", "f-tuple"])), self.tag(0.2))
        if c == "replace-tbl":
            return ("replace", ("capture", inner, None), ("tbl", [(b"a", b"A"), (b"b", 2), (b"ab", Kw("ab")), (b"1", b"one")]), self.tag(0.2))
        if c == "cmt":
            return ("cmt", self.pat(depth - 1, False) if depth > 0 else ("capture", inner, None), ("fn", r.choice(["f-join", "f-first", "f-even", "f-count"])), self.tag(0.2))
        return ("capture", inner, None)

    def pat(self, depth, in_acc=False):
        r = self.rng
        if depth <= 0:
            return self.atom() if r.random() < 0.6 else self.capture_node(0, in_acc)
        c = r.random()
        if r.random() < 0.04:
            # a tagged capture followed by a reference to that tag, also inside an accumulate and across a failed alternative
            self.features.add("tag-then-ref")
            t = r.choice(TAGS)
            cap = r.choice([("capture", self.atom(consuming=True), t), ("constant", r.choice([b"K", 7]), t), ("accumulate", ("capture", self.atom(consuming=True), None), t)])
            ref = r.choice([("backref", t, None), ("backmatch", t), ("seq", [("backmatch", t), ("backref", t, None)])])
            mid = self.pat(depth - 2, in_acc) if depth > 1 and r.random() < 0.4 else None
            body = ("seq", [x for x in (cap, mid, ref) if x is not None])
            if not in_acc and r.random() < 0.5:
                return ("accumulate", body, self.tag(0.2))
            return body
        if c < 0.14:
            return self.atom()
        if c < 0.30:
            return ("seq", [self.pat(depth - 1, in_acc) for _ in range(r.choice([2, 2, 3, 4]))])
        if c < 0.46:
            alts = [self.pat(depth - 1, in_acc) for _ in range(r.choice([2, 2, 3]))]
            if r.random() < 0.6:
                alts.insert(r.randrange(len(alts)), self.capturing_fail(depth, in_acc))
            return ("choice", alts)
        if c < 0.60:
            return self.capture_node(depth, in_acc)
        if c < 0.68:
            body = self.pat(depth - 1, in_acc)
            if r.random() < 0.4:
                body = ("seq", [body, self.capturing_fail(depth, in_acc)]) if r.random() < 0.3 else ("choice", [self.capturing_fail(depth, in_acc), body])
            return self.between(body)
        if c < 0.72:
            return ("not", self.pat(depth - 1, in_acc))
        if c < 0.75:
            return ("ifnot", self.pat(depth - 1, in_acc), self.pat(depth - 1, in_acc))
        if c < 0.78:
            return ("if", self.nocap(depth - 1), self.pat(depth - 1, in_acc))
        if c < 0.80:
            return ("look", r.choice([0, 1, -1, 2, -2]), self.nocap(depth - 1))
        if c < 0.84:
            return (r.choice(["to", "thru"]), self.pat(depth - 1, in_acc))
        if c < 0.87:
            return (r.choice(["drop", "onlytags"]), self.pat(depth - 1, in_acc))
        if c < 0.89:
            self.features.add("unref")
            return ("unref", self.pat(depth - 1, in_acc), self.tag(0.5))
        if c < 0.91:
            self.features.add("backmatch")
            return ("backmatch", r.choice(TAGS))
        if c < 0.935:
            self.features.add("lenprefix")
            lenp = r.choice([("number", ("builtin", "d"), None, None), ("readint", 1, False, False, None), ("constant", r.choice([0, 1, 2, 3]), None),
                             ("seq", [("number", ("builtin", "d"), None, None), ("capture", self.atom(), None)]), ("capture", self.atom(), None)])
            return ("lenprefix", lenp, self.pat(depth - 1, in_acc))
        if c < 0.955:
            self.features.add("sub")
            return ("sub", self.pat(depth - 1, in_acc), self.pat(depth - 1, in_acc))
        if c < 0.97:
            self.features.add("til")
            return ("til", self.nocap(depth - 1) if r.random() < 0.5 else self.pat(depth - 1, in_acc), self.pat(depth - 1, in_acc))
        if c < 0.985:
            self.features.add("split")
            return ("split", self.atom(consuming=True) if r.random() < 0.7 else self.pat(depth - 1, in_acc), self.pat(depth - 1, in_acc))
        if c < 0.992 and not in_acc:
            self.features.add("error")
            return ("error", r.choice([("capture", self.atom(), None), self.atom(), self.pat(depth - 1, False)]))
        if self.rule_names:
            return ("ref", r.choice(self.rule_names))
        return self.atom()

    def directed_restore(self):
        """(scope (* pre (+ FAILS ALT) post)): FAILS switches capture mode / scratch / tags and then fails; whatever it switched must be
        back in place for ALT and post, under every kind of capture scope."""
        r = self.rng
        self.features.add("directed-restore")
        num = ("number", ("builtin", "d"), None, None)
        one = ("capture", ("n", 1), None)
        fails = r.choice([
            ("lenprefix", num, ("n", 1)),                                   # length pattern fails on a non-digit
            ("lenprefix", ("seq", [one, num]), ("n", 1)),
            ("lenprefix", ("seq", [num, ("lit", b"zz")]), ("n", 1)),
            ("lenprefix", ("constant", 3, None), ("lit", b"zz")),           # body fails
            ("lenprefix", ("readint", 1, False, False, None), ("n", 30)),
            ("seq", [("accumulate", ("seq", [one, one]), None), ("lit", b"zz")]),
            ("accumulate", ("seq", [one, ("lit", b"zz")]), None),
            ("seq", [("group", ("seq", [one, one]), None), ("lit", b"zz")]),
            ("group", ("seq", [one, ("lit", b"zz")]), None),
            ("seq", [("capture", ("n", 2), r.choice(TAGS)), ("lit", b"zz")]),
            ("drop", ("seq", [one, ("lit", b"zz")])),
            ("replace", ("seq", [one, ("lit", b"zz")]), ("const", b"R"), None),
            ("sub", ("seq", [one, one]), ("seq", [one, ("lit", b"zz")])),
            ("unref", ("seq", [("capture", ("n", 1), r.choice(TAGS)), ("lit", b"zz")]), None),
        ])
        for f in ("lenprefix", "accumulate", "group", "sub", "unref"):
            if fails[0] == f or (fails[0] == "seq" and fails[1][0][0] == f):
                self.features.add(f)
        alt = r.choice([("capture", self.atom(consuming=True), None), ("capture", ("n", 2), None), ("seq", [one, one]),
                        ("seq", [("capture", ("n", 1), TAGS[0]), ("backref", TAGS[0], None)]), ("capture", ("builtin", "w+"), None)])
        pre = r.choice([None, one, ("constant", b"K", None), ("capture", ("n", 1), TAGS[1])])
        post = r.choice([None, one, ("position", None), ("capture", ("n", 0), None), ("backref", TAGS[1], None) if pre and pre[0] == "capture" and pre[2] else one])
        core_ = ("seq", [x for x in (pre, ("choice", [fails, alt]), post) if x is not None])
        if r.random() < 0.3:
            core_ = ("between", 1, 3, core_, 0)
            self.features.add("repeat")
        scope = r.choice(["accumulate", "accumulate", "accumulate", "group", "plain", "replace-const", "capture"])
        if scope == "accumulate":
            self.features.add("accumulate")
            return {"main": ("accumulate", core_, None)}
        if scope == "group":
            self.features.add("group")
            return {"main": ("group", core_, None)}
        if scope == "replace-const":
            return {"main": ("seq", [("replace", core_, ("const", b"R"), None), one])}
        if scope == "capture":
            return {"main": ("capture", core_, None)}
        return {"main": core_}

    def grammar(self, depth):
        r = self.rng
        if r.random() < 0.12:
            return self.directed_restore()
        if r.random() < 0.75:
            return {"main": self.pat(depth)}
        if r.random() < 0.3:
            # nested grammar that rebinds a name used by an outer rule which the inner grammar references: scoping must be lexical
            self.features.add("grammar-nested")
            self.rule_names = []
            px, py = self.pat(max(depth - 2, 0)), self.pat(max(depth - 2, 0))
            outer_c = r.choice([("seq", [("ref", "r1"), ("ref", "r1")]), ("choice", [("seq", [("ref", "r1"), ("lit", b"!")]), ("ref", "r1")]), ("capture", ("ref", "r1"), None)])
            inner_main = r.choice([("seq", [("ref", "r1"), ("ref", "r2")]), ("seq", [("ref", "r2"), ("ref", "r1")]), ("choice", [("ref", "r2"), ("ref", "r1")])])
            inner = {"main": inner_main, "r1": py}
            lead = self.pat(max(depth - 2, 0)) if r.random() < 0.4 else None
            main = ("seq", [lead, ("grammar", inner)]) if lead else ("grammar", inner)
            return {"main": main, "r1": px, "r2": outer_c}
        # table grammar with guarded recursion
        self.features.add("grammar-table")
        names = ["r1", "r2"][:r.choice([1, 2])]
        self.rule_names = names
        rules = {}
        for nm in names:
            base = self.pat(max(depth - 2, 0))
            rec = ("seq", [self.atom(consuming=True) if False else r.choice([("lit", b"a"), ("lit", b"b"), ("n", 1), ("range", [(97, 98)])]),
                           self.pat(max(depth - 3, 0)) if r.random() < 0.5 else ("capture", ("n", 0), None), ("ref", r.choice(names))])
            rules[nm] = ("choice", [rec, base]) if r.random() < 0.7 else ("choice", [base, rec])
        main = self.pat(depth - 1)
        rules = dict([("main", ("seq", [main, ("ref", names[0])]) if r.random() < 0.5 else ("ref", names[0]))] + list(rules.items()))
        return rules

    def text(self):
        r = self.rng
        n = r.choice([0, 1, 2, 3, 4, 5, 6, 8, 10, 15, 25, 40])
        if r.random() < 0.3:
            # digit-prefixed / structured texts help lenprefix, number, split
            parts = [r.choice([b"1", b"2", b"3", b"ab", b"a", b"b", b"\n", b"a1", b"x", b"\x00", b"\x02"]) for _ in range(max(1, n // 2))]
            return b"".join(parts)[:40]
        return b"".join(r.choice(ALPHA[:5] if r.random() < 0.9 else ALPHA) for _ in range(n))
