"""Python-side value descriptions and their canonical text (mirror of janet/canon.janet),
plus emission of Janet source that constructs the value."""
import math
import struct


class Buf:
    def __init__(self, b): self.b = bytes(b)
class Sym:
    def __init__(self, b): self.b = b if isinstance(b, bytes) else b.encode()
class Kw:
    def __init__(self, b): self.b = b if isinstance(b, bytes) else b.encode()
    def __eq__(self, o): return isinstance(o, Kw) and o.b == self.b
    def __hash__(self): return hash(("kw", self.b))
class Tup:
    def __init__(self, items, bracket=False): self.items = list(items); self.bracket = bracket
class Struct:
    def __init__(self, pairs, proto=None): self.pairs = list(pairs); self.proto = proto
class Table:
    def __init__(self, pairs, proto=None): self.pairs = list(pairs); self.proto = proto
class S64:
    def __init__(self, v): self.v = v
class U64:
    def __init__(self, v): self.v = v


def canon_num(x):
    x = float(x)
    if not math.isinf(x) and not math.isnan(x) and x == math.trunc(x) and abs(x) < 1e15:
        return str(int(x))
    return "f" + struct.pack(">d", x).hex()


def canon(v):
    if v is None:
        return "nil"
    if v is True:
        return "true"
    if v is False:
        return "false"
    if isinstance(v, (int, float)):
        return canon_num(v)
    if isinstance(v, bytes):
        return "s" + v.hex()
    if isinstance(v, str):
        return "s" + v.encode().hex()
    if isinstance(v, Buf):
        return "b" + v.b.hex()
    if isinstance(v, Sym):
        return "y" + v.b.hex()
    if isinstance(v, Kw):
        return "k" + v.b.hex()
    if isinstance(v, Tup):
        o, c = ("[", "]") if v.bracket else ("(", ")")
        return o + " ".join(canon(e) for e in v.items) + c
    if isinstance(v, list):
        return "@(" + " ".join(canon(e) for e in v) + ")"
    if isinstance(v, (Struct, Table)):
        items = sorted((canon(k), canon(val)) for k, val in v.pairs)
        body = " ".join(k + " " + val for k, val in items)
        if v.proto is not None:
            body += " ^" + canon(v.proto)
        return ("{" if isinstance(v, Struct) else "@{") + body + "}"
    if isinstance(v, S64):
        return "i%d" % v.v
    if isinstance(v, U64):
        return "u%d" % v.v
    raise TypeError("canon: %r" % (v,))


def jbytes(b):
    out = ['"']
    for c in b:
        if c == 0x22:
            out.append('\\"')
        elif c == 0x5C:
            out.append("\\\\")
        elif 32 <= c < 127:
            out.append(chr(c))
        else:
            out.append("\\x%02X" % c)
    out.append('"')
    return "".join(out)


def jnum(x):
    if isinstance(x, int):
        return str(x)
    if math.isnan(x):
        return "math/nan"
    if math.isinf(x):
        return "math/inf" if x > 0 else "math/-inf"
    if x == math.trunc(x) and abs(x) < 1e15:
        if x == 0 and math.copysign(1, x) < 0:
            return "-0"
        return str(int(x))
    return repr(x)


def emit(v, quoted=False):
    """Janet source constructing v (expressions; tuples built with constructor calls unless quoted)."""
    if v is None:
        return "nil"
    if v is True:
        return "true"
    if v is False:
        return "false"
    if isinstance(v, (int, float)):
        return jnum(v)
    if isinstance(v, bytes):
        return jbytes(v)
    if isinstance(v, str):
        return jbytes(v.encode())
    if isinstance(v, Buf):
        return "@" + jbytes(v.b)
    if isinstance(v, Sym):
        return "(symbol %s)" % jbytes(v.b)
    if isinstance(v, Kw):
        return "(keyword %s)" % jbytes(v.b)
    if isinstance(v, Tup):
        if v.bracket:
            return "(tuple/brackets " + " ".join(emit(e) for e in v.items) + ")"
        return "(tuple " + " ".join(emit(e) for e in v.items) + ")"
    if isinstance(v, list):
        return "(array " + " ".join(emit(e) for e in v) + ")"
    if isinstance(v, Struct):
        s = "(struct " + " ".join(emit(k) + " " + emit(val) for k, val in v.pairs) + ")"
        if v.proto is not None:
            s = "(struct/with-proto %s %s)" % (emit(v.proto), " ".join(emit(k) + " " + emit(val) for k, val in v.pairs))
        return s
    if isinstance(v, Table):
        s = "(table " + " ".join(emit(k) + " " + emit(val) for k, val in v.pairs) + ")"
        if v.proto is not None:
            s = "(table/setproto %s %s)" % (s, emit(v.proto))
        return s
    if isinstance(v, S64):
        return '(int/s64 "%d")' % v.v
    if isinstance(v, U64):
        return '(int/u64 "%d")' % v.v
    raise TypeError("emit: %r" % (v,))
