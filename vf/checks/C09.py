"""C09 — marshal/unmarshal and disasm/asm round trips preserve values and behaviour.

Monitor: generated value graphs (every marshalable type, aliasing and cycles through
every mutable container kind, integers at every encoding-width boundary) are built in
janet; a sharing- and cycle-preserving canonical text of the original is validated
against the text computed here from the graph description, then the copy's text must
be the same. Closures, suspended fibers, PEGs, channels are compared behaviourally:
original and copy are driven by the same call/resume sequences."""
import os
import random

from vf import build, core, model_peg
from vf.canon import Kw, Sym, Buf, Tup, S64, U64, canon, emit, jbytes

LEVEL = "exploration"

PRELUDE = open(os.path.join(core.VERIF, "janet", "canon.janet")).read() + r'''
(defn canon-graph [root]
  (def ids @{})
  (var nid 0)
  (def out @"")
  (defn refkey? [k] (or (array? k) (table? k) (buffer? k) (function? k) (fiber? k) (abstract? k)))
  (defn go [x]
    (case (type x)
      :array (if-let [id (in ids x)] (buffer/push out "#" (string id))
               (do (put ids x nid) (buffer/push out "#" (string nid) "=@(") (++ nid)
                 (each e x (buffer/push out " ") (go e)) (buffer/push out ")")))
      :buffer (if-let [id (in ids x)] (buffer/push out "#" (string id))
                (do (put ids x nid) (buffer/push out "#" (string nid) "=" (canon x)) (++ nid)))
      :table (if-let [id (in ids x)] (buffer/push out "#" (string id))
               (do (put ids x nid) (buffer/push out "#" (string nid) "=@{") (++ nid)
                 (def vk (sort (seq [k :keys x :when (not (refkey? k))] [(canon k) k])))
                 (each [ck k] vk (buffer/push out " " ck "=") (go (in x k)))
                 (each k (keys x) (when (refkey? k) (buffer/push out " R:") (go k) (buffer/push out "=") (go (in x k))))
                 (when (table/getproto x) (buffer/push out " ^") (go (table/getproto x)))
                 (buffer/push out "}")))
      :tuple (do (buffer/push out (if (= :brackets (tuple/type x)) "[" "("))
               (each e x (buffer/push out " ") (go e))
               (buffer/push out (if (= :brackets (tuple/type x)) "]" ")")))
      :struct (do (buffer/push out "{")
                (def vk (sort (seq [k :keys x] [(canon k) k])))
                (each [ck k] vk (buffer/push out " " ck "=") (go (in x k)))
                (when (struct/getproto x) (buffer/push out " ^") (go (struct/getproto x)))
                (buffer/push out "}"))
      :cfunction (buffer/push out "cfun:" (string x))
      (buffer/push out (canon x))))
  (go root)
  (string out))
(defn rt-plain [x] (unmarshal (marshal x)))
(defn rt-dict [x] (unmarshal (marshal x make-image-dict) load-image-dict))
(defn report [id tag f]
  (def r (protect (f)))
  (print id " " tag " " (if (r 0) (r 1) (string "ERR " (string/slice (string (r 1)) 0 (min 100 (length (string (r 1))))))))
  (flush))
'''

INT_EDGES = [0, 1, -1, 127, 128, -128, 8191, 8192, -8192, -8193, 2 ** 31 - 1, 2 ** 31, -2 ** 31, -2 ** 31 - 1, 2 ** 32, 2 ** 53, 65535, 65536, 200, 255, 256]


class GraphGen:
    """Builds a graph description: nodes[i] = dict(type, ...) ; leaves are inline Python values."""

    def __init__(self, rng):
        self.rng = rng
        self.nodes = []     # mutable nodes: dict(kind='array'|'table'|'buffer', items/pairs/proto/bytes)

    def leaf(self):
        r = self.rng
        c = r.random()
        if c < 0.35:
            return r.choice(INT_EDGES + [0.5, -2.25, 1e100, 1e-300, float("inf"), r.randrange(-10 ** 6, 10 ** 6)])
        if c < 0.55:
            n = r.choice([0, 1, 3, 127, 128, 200]) if r.random() < 0.9 else r.choice([8191, 8192])
            return bytes((65 + (i * 7) % 26) for i in range(n))
        if c < 0.67:
            return Kw(r.choice(["a", "bc", "k%d" % r.randrange(50)]))
        if c < 0.75:
            return Sym(r.choice(["s", "sym-x", "y%d" % r.randrange(50)]))
        if c < 0.83:
            return r.choice([True, False, None])
        if c < 0.92:
            return S64(r.choice([0, -1, 2 ** 63 - 1, -2 ** 63, 12345678901234]))
        return U64(r.choice([0, 1, 2 ** 64 - 1, 2 ** 63, 98765432109876]))

    def value(self, depth):
        """Returns a description: leaf | ('ref', idx) | ('tuple', items, bracket) | ('struct', pairs, proto)"""
        r = self.rng
        c = r.random()
        if depth <= 0 or c < 0.3:
            if self.nodes and r.random() < 0.45:
                return ("ref", r.randrange(len(self.nodes)))     # alias (possibly a back edge = cycle)
            return self.leaf()
        if c < 0.5:
            idx = self.new_node(r.choice(["array", "table", "buffer", "array", "table"]), depth - 1)
            return ("ref", idx)
        if c < 0.75:
            return ("tuple", [self.value(depth - 1) for _ in range(r.randrange(0, 4))], r.random() < 0.3)
        pairs = []
        seen = set()
        for _ in range(r.randrange(0, 4)):
            k = self.leaf()
            if k is None or (isinstance(k, float) and k != k) or isinstance(k, (S64, U64)):
                continue
            ck = canon(k)
            if ck in seen:
                continue
            seen.add(ck)
            v = self.value(depth - 1)
            if v is None:
                v = 1
            pairs.append((k, v))
        return ("struct", pairs, None)

    def new_node(self, kind, depth):
        r = self.rng
        idx = len(self.nodes)
        node = dict(kind=kind)
        self.nodes.append(node)
        if kind == "array":
            node["items"] = [self.value(depth) for _ in range(r.randrange(0, 5))]
        elif kind == "buffer":
            n = r.choice([0, 1, 5, 127, 128, 300])
            node["bytes"] = bytes((i * 31 + 7) % 256 for i in range(n))
        else:
            pairs, seen = [], set()
            refkey_used = False
            for _ in range(r.randrange(0, 5)):
                if not refkey_used and self.nodes and r.random() < 0.12:
                    k = ("ref", r.randrange(len(self.nodes)))
                    refkey_used = True
                else:
                    k = self.leaf()
                    if k is None or (isinstance(k, float) and k != k) or isinstance(k, (S64, U64)):
                        continue
                    ck = canon(k)
                    if ck in seen:
                        continue
                    seen.add(ck)
                v = self.value(depth)
                if v is None:
                    v = 0
                pairs.append((k, v))
            node["pairs"] = pairs
            node["proto"] = ("ref", r.choice([i for i in range(len(self.nodes)) if self.nodes[i]["kind"] == "table"] or [idx])) if r.random() < 0.2 else None
            if node["proto"] is not None and node["proto"][1] >= idx:
                node["proto"] = None   # prototypes only point to earlier tables: lookup chains stay acyclic
        return idx

    # ---- emission and expected canonical text
    def emit_value(self, v):
        if isinstance(v, tuple) and v and v[0] == "ref":
            return "n%d" % v[1]
        if isinstance(v, tuple) and v and v[0] == "tuple":
            ctor = "tuple/brackets" if v[2] else "tuple"
            return "(%s %s)" % (ctor, " ".join(self.emit_value(x) for x in v[1]))
        if isinstance(v, tuple) and v and v[0] == "struct":
            return "(struct %s)" % " ".join(self.emit_value(k) + " " + self.emit_value(x) for k, x in v[1])
        return emit(v)

    def emit_build(self, root):
        lines = []
        for i, n in enumerate(self.nodes):
            lines.append("(def n%d %s)" % (i, {"array": "@[]", "table": "@{}", "buffer": "(buffer %s)" % jbytes(n.get("bytes", b""))}[n["kind"]]))
        for i, n in enumerate(self.nodes):
            if n["kind"] == "array":
                for it in n["items"]:
                    lines.append("(array/push n%d %s)" % (i, self.emit_value(it)))
            elif n["kind"] == "table":
                for k, v in n["pairs"]:
                    lines.append("(put n%d %s %s)" % (i, self.emit_value(k), self.emit_value(v)))
                if n["proto"] is not None:
                    lines.append("(table/setproto n%d n%d)" % (i, n["proto"][1]))
        lines.append("(def root %s)" % self.emit_value(root))
        return "\n".join(lines)

    def expected(self, root):
        ids = {}
        out = []

        def go(v):
            if isinstance(v, tuple) and v and v[0] == "ref":
                idx = v[1]
                if idx in ids:
                    out.append("#%d" % ids[idx])
                    return
                n = self.nodes[idx]
                my = len(ids)
                ids[idx] = my
                if n["kind"] == "array":
                    out.append("#%d=@(" % my)
                    for it in n["items"]:
                        out.append(" ")
                        go(it)
                    out.append(")")
                elif n["kind"] == "buffer":
                    out.append("#%d=%s" % (my, canon(Buf(n["bytes"]))))
                else:
                    out.append("#%d=@{" % my)
                    # later puts with the same value-key overwrite earlier ones; nil values remove
                    vals = {}
                    refpairs = []
                    for k, val in n["pairs"]:
                        if isinstance(k, tuple) and k and k[0] == "ref":
                            refpairs = [(k, val)]
                        else:
                            vals[canon(k)] = (k, val)
                    for ck in sorted(vals):
                        out.append(" " + ck + "=")
                        go(vals[ck][1])
                    for k, val in refpairs:
                        out.append(" R:")
                        go(k)
                        out.append("=")
                        go(val)
                    if n["proto"] is not None:
                        out.append(" ^")
                        go(n["proto"])
                    out.append("}")
                return
            if isinstance(v, tuple) and v and v[0] == "tuple":
                out.append("[" if v[2] else "(")
                for x in v[1]:
                    out.append(" ")
                    go(x)
                out.append("]" if v[2] else ")")
                return
            if isinstance(v, tuple) and v and v[0] == "struct":
                out.append("{")
                for ck, k, x in sorted(((canon(k), k, x) for k, x in v[1]), key=lambda t: t[0]):
                    out.append(" " + ck + "=")
                    go(x)
                out.append("}")
                return
            out.append(canon(v))
        go(root)
        return "".join(out)

    def has_sharing(self):
        return len(self.nodes) >= 1


# ------------------------------------------------------------------ behavioural cases

BEHAVIOUR = [
    # (name, setup producing `orig`, driver: function of one object returning a printable trace)
    ("counter-family",
     "(defn mk [k] (var n k) [(fn inc [] (++ n)) (fn dec [d] (-= n d)) (fn get [] n)]) (def orig (mk %(a)d)) ((orig 0))",
     "(fn [o] (string/join (map string [((o 0)) ((o 1) %(b)d) ((o 2)) ((o 0)) ((o 2))]) \",\"))"),
    ("closure-over-array",
     "(defn mk [] (def acc @[]) {:push (fn [x] (array/push acc x) (length acc)) :sum (fn [] (sum acc)) :acc acc}) (def orig (mk)) ((orig :push) %(a)d)",
     "(fn [o] ((o :push) %(b)d) ((o :push) 7) (string ((o :sum)) \"/\" (length (o :acc)) \"/\" (= (o :acc) (o :acc))))"),
    ("loop-closures",
     "(def orig (seq [i :range [0 4]] (var j (* i %(a)d)) (fn [d] (+= j d) [i j])))",
     "(fn [o] (string/join (map (fn [f] (string/format \"%%j\" (f %(b)d))) o) \" \"))"),
    ("nested-closures",
     "(defn outer [x] (var t x) (fn mid [y] (+= t y) (fn inner [z] (+= t z) [x y z t]))) (def orig (outer %(a)d))",
     "(fn [o] (def i1 (o 2)) (def i2 (o 3)) (string/format \"%%j %%j %%j\" (i1 %(b)d) (i2 1) (i1 1)))"),
    ("recursive-named",
     "(def orig (fn fact [n] (if (< n 2) 1 (* n (fact (- n 1))))))",
     "(fn [o] (string (o %(c)d) \",\" (o 1) \",\" (o 10)))"),
    ("variadic-opt-keys",
     "(def orig (fn [a &opt b & rest] [a (default b %(a)d) (length rest) (sum rest)]))",
     "(fn [o] (string/format \"%%j %%j %%j\" (o 1) (o 1 2) (o 1 2 3 4 %(b)d)))"),
    ("generator-mid-sequence",
     "(def orig (fiber/new (fn [] (for i 0 6 (yield (* i %(a)d))) :end))) (resume orig) (resume orig)",
     "(fn [o] (string/join (map string [(resume o) (resume o) (fiber/status o) (resume o) (resume o) (resume o) (fiber/status o)]) \",\"))"),
    ("fiber-with-child",
     "(def orig (fiber/new (fn [] (def ch (fiber/new (fn [] (yield %(a)d) (yield %(b)d) :cdone))) (yield (resume ch)) (yield (resume ch)) (yield (resume ch)) :done))) (resume orig)",
     "(fn [o] (string/join (map string [(resume o) (resume o) (resume o) (fiber/status o)]) \",\"))"),
    ("fiber-suspended-in-child-signal",
     "(def orig (fiber/new (fn [] (def ch (fiber/new (fn [] (def got (debug)) (yield [got %(a)d]) :cdone) :y)) (def r1 (resume ch)) (def r2 (resume ch)) [r1 r2 (fiber/status ch)]) :a)) (resume orig)",
     "(fn [o] (string/format \"%%j\" [(fiber/status o) (resume o %(b)d) (fiber/status o)]))"),
    ("fiber-two-frames-closure",
     "(defn mk [] (var getter nil) (def fb (fiber/new (fn [] (var low %(a)d) (set getter (fn [d] (+= low d))) (defn inner [x] (yield (+ x low)) (+ x 1)) (def r (inner 5)) (yield [r low]) low))) (resume fb) [fb getter]) (def orig (mk))",
     "(fn [o] (string/format \"%%j\" [((o 1) 1) (resume (o 0)) ((o 1) %(b)d) (resume (o 0)) (fiber/status (o 0)) ((o 1) 1000)]))"),
    ("fiber-captures-shared-var",
     "(defn mk [] (var shared %(a)d) (def getter (fn [] shared)) (def fb (fiber/new (fn [] (forever (yield (++ shared)))))) (resume fb) [fb getter]) (def orig (mk))",
     "(fn [o] (string (resume (o 0)) \",\" ((o 1)) \",\" (resume (o 0)) \",\" ((o 1))))"),
    ("channel-with-items",
     "(def orig (ev/chan 8)) (ev/give orig %(a)d) (ev/give orig [1 \"s\" :k]) (ev/give orig @{:t %(b)d})",
     "(fn [o] (string/format \"%%j %%j %%j %%j %%j\" (ev/count o) (ev/capacity o) (ev/take o) (ev/take o) (ev/take o)))"),
    ("channel-drained-embedded",
     "(def ch (ev/chan 4)) (repeat %(b)d (ev/give ch %(a)d) (ev/take ch)) (def orig [ch :after @[1 2 ch] {:k ch} \"tail\" %(a)d])",
     "(fn [o] (string/format \"%%j\" [(ev/count (o 0)) (o 1) (length (o 2)) (= (o 0) (get (o 2) 2)) (= (o 0) ((o 3) :k)) (o 4) (o 5) (do (ev/give (o 0) 9) (ev/take (o 0)))]))"),
    ("channel-wrapped-ring",
     "(def ch (ev/chan 4)) (ev/give ch 1) (ev/give ch 2) (ev/give ch 3) (ev/take ch) (ev/take ch) (ev/give ch %(a)d) (ev/give ch 5) (ev/give ch [6]) (def orig [ch :after ch \"tail\"])",
     "(fn [o] (string/format \"%%j\" [(ev/count (o 0)) (o 1) (= (o 0) (o 2)) (o 3) (ev/take (o 0)) (ev/take (o 0)) (ev/take (o 0)) (ev/take (o 0))]))"),
    ("boxed-ints",
     "(def orig [(int/s64 \"%(s)d\") (int/u64 \"%(u)d\") @{(int/s64 5) :five}])",
     "(fn [o] (string (o 0) \",\" (o 1) \",\" (type (o 0)) \",\" (+ (o 0) 1) \",\" (get (o 2) (int/s64 5))))"),
]

# one grammar per combinator family whose behaviour depends on state recomputed or re-verified when a PEG image is loaded
PEG_DIRECTED = [
    ("backref", "~(* (<- :d+ :n) \",\" (-> :n))", ["12,x", "7,", "a"]),
    ("backref-replace", "~(/ (* (<- :a :t) (-> :t)) ,f-join)", ["ab", "z"]),
    ("backref-accumulate", "~(% (* (<- :a :t) \"-\" (-> :t) (-> :t)))", ["a-", "b-x"]),
    ("backref-cmt", "~(cmt (* (<- 1 :x) (-> :x)) ,f-join)", ["q", ""]),
    ("backref-lenprefix", "~(* (number :d nil :len) (lenprefix (-> :len) (<- 1)))", ["3abc", "2ab", "1"]),
    ("backref-group", "~(group (* (<- :a :t) (group (-> :t))))", ["a"]),
    ("backmatch", "~(* (<- :a+ :w) \" \" (backmatch :w))", ["ab ab", "ab ba"]),
    ("unref", "~(* (unref (<- :a :t)) (+ (-> :t) (constant :none)))", ["a"]),
    ("readint", "~(* (int 2) (uint-be 3) (int-be 1) (uint 4) (int 8))", ["\\x01\\xff\\x00\\x01\\x02\\x80\\x04\\x03\\x02\\x01\\xff\\xff\\xff\\xff\\xff\\xff\\xff\\x7f"]),
    ("sub-til-split", "~(* (sub (to \";\") (<- :a+)) \";\" (til \"!\" (<- :d+)) (split \",\" (<- :w*)))", ["ab;12!x,y,z", "ab;1"]),
    ("only-tags-drop", "~(* (only-tags (<- :a :t)) (drop (<- :d)) (-> :t))", ["a1"]),
    ("position-line-col", "~(* (any (+ \"\\n\" :a)) (line) (column) ($))", ["ab\\ncd", ""]),
    ("error", "~(+ (* \"ok\" (constant 1)) (error (<- 1)))", ["ok", "no"]),
    ("grammar-table", "~{:main (* :pair (any (* \",\" :pair))) :pair (* (<- :a+) \"=\" (number :d+))}", ["a=1,b=22", "a="]),
    ("nth-argument", "~(nth 1 (* (<- 1) (argument 0) (<- 1)))", ["xy"]),
]

ASM_FUNCS = [
    "(fn [x y] (+ (* x %(a)d) y))", "(fn [x &opt y] (if y (- x y) (- x)))", "(fn [& xs] (reduce + %(a)d xs))",
    "(fn [x] (var s 0) (for i 0 x (+= s (* i %(b)d))) s)", "(fn [x y] (cond (< x y) :lt (> x y) :gt :eq))",
    "(fn [x y] (def t @{:x x}) (put t :y y) (length t))", "(fn [x y] (string x \"-\" y \"-%(a)d\"))",
    "(fn [x y] (try (error [x y]) ([e] (get e 1))))", "(fn rec [x y] (if (<= x 0) y (rec (- x 1) (+ y %(b)d))))",
    "(fn [x y] (let [[a b] [y x] {:k k} {:k %(a)d}] (+ a (* 2 b) k)))", "(fn [x y] (match [x y] [1 b] (+ b 100) [a 2] (+ a 200) _ :other))",
    # every operand-field boundary of the instruction encodings: 8-bit immediates, 16-bit integer loads, long constants, far jumps
    "(fn [x y] [(+ x -128) (+ x 127) (* y -128) (* y 127) (= x -128) (not= y 127) (< x -128) (> y 127)])",
    "(fn [x y] [-32768 32767 -32769 32768 (+ x -32768) (max -32768 x) (min 32767 y)])",
    "(fn [x y] [(+ x -129) (+ x 128) (- x -128) (- y 128) (band x -128) (bor y 127) (blshift x 31) (brshift y 31)])",
    "(fn [x y] (var r 0) (if (> x y) (do %(pad)s (set r 1)) (do %(pad)s (set r 2))) (while (< r 5) %(pad)s (++ r)) r)",
]


def run(ctx):
    exe = build.janet("asan")
    quick = ctx.tier == "quick"
    ngraphs = 12000 if quick else 200000
    nbeh = 2000 if quick else 30000
    per = 60
    ctx.rule = ("value graphs with 0-12 mutable nodes (arrays, tables with prototypes and one reference-typed key, buffers), tuples/structs inside and around "
                "them, aliasing and back edges (cycles), leaves at every integer/length encoding boundary, boxed s64/u64; round trips with and without lookup "
                "dictionaries; behavioural cases: closure families sharing captured variables, loop closures, nested closures, suspended generators, fibers "
                "with children, channels with queued items, compiled PEGs, asm(disasm f); non-trivial = graph with an alias or cycle, or behavioural case")
    ctx.assumptions = ["canon-graph (janet side) is validated on every case against the text computed from the Python description before the copy is judged"]
    nb = (ngraphs + per - 1) // per

    def do_graphs(bi):
        rng = random.Random(ctx.sub_seed("g", bi))
        lines = [PRELUDE]
        exp = {}
        for ci in range(per):
            gg = GraphGen(rng)
            root = gg.value(rng.choice([1, 2, 3, 4]))
            gid = "g%d" % ci
            body = gg.emit_build(root)
            acyclic_nosharing = len(gg.nodes) == 0
            lines.append("(do\n%s\n(report \"%s\" \"orig\" (fn [] (canon-graph root)))\n(report \"%s\" \"plain\" (fn [] (canon-graph (rt-plain root))))\n"
                         "(report \"%s\" \"dict\" (fn [] (canon-graph (rt-dict root))))\n%s"
                         "(report \"%s\" \"twice\" (fn [] (canon-graph (rt-plain (rt-plain root))))))" %
                         (body, gid, gid, gid,
                          ("(report \"%s\" \"nocycles\" (fn [] (canon-graph (unmarshal (marshal root @{} @\"\" true)))))\n" % gid) if acyclic_nosharing else "", gid))
            exp[gid] = (gg.expected(root), len(gg.nodes), body)
        script = "\n".join(lines) + "\n"
        d = core.case_dir()
        path = os.path.join(d, "graphs.janet")
        open(path, "w").write(script)
        res = core.run([exe, path], timeout=600, cpu=400)
        files = {"graphs.janet": script}
        usable = ctx.check_result(res, files, where="graphs")
        got = {}
        for line in res.out.decode(errors="replace").splitlines():
            p = line.split(" ", 2)
            if len(p) == 3:
                got.setdefault(p[0], {})[p[1]] = p[2]
        core.discard(res)
        for gid, (want, nnodes, body) in exp.items():
            g = got.get(gid)
            if not g or "orig" not in g:
                if usable:
                    ctx.violation("no-output", "no output for graph %s" % gid, files)
                break
            single = {"case.janet": PRELUDE + "(do\n" + body + "\n(print (canon-graph root))\n(print (canon-graph (rt-plain root)))\n(print (canon-graph (rt-dict root))))\n"}
            if g["orig"] != want:
                raise core.HarnessError("canon-graph disagrees with the description: janet %r python %r\n%s" % (g["orig"][:300], want[:300], body[:600]))
            for tag in ("plain", "dict", "twice", "nocycles"):
                if tag not in g:
                    continue
                ctx.evals()
                if g[tag] != want:
                    kind = "raised" if g[tag].startswith("ERR") else "shape"
                    ctx.violation("graph-roundtrip:%s:%s" % (tag, kind), "copy (%s) differs: original %s copy %s" % (tag, want[:300], g[tag][:300]), single)
            if nnodes >= 1 and ("#0" in want[3:] or want.count("#") > 1):
                ctx.nontriv((bi, gid))
            ctx.count("graphs")
            ctx.sample({"canonical": want[:200], "mutable_nodes": nnodes}, cap=4)

    core.pmap(do_graphs, range(nb))

    # ---- behavioural round trips
    def do_beh(bi):
        rng = random.Random(ctx.sub_seed("beh", bi))
        lines = [PRELUDE, "(defn get-ok [r] (if (r 0) (r 1) (error (string \"round trip raised: \" (r 1)))))"]
        exp = []
        for ci in range(12):
            p = dict(a=rng.choice([0, 1, 2, 3, 7, 100, -5]), b=rng.choice([1, 2, 5, 11]), c=rng.choice([0, 1, 5, 12]), sig=rng.choice([5, 6, 7]),
                     s=rng.choice([-2 ** 63, -1, 0, 2 ** 63 - 1]), u=rng.choice([0, 2 ** 64 - 1, 2 ** 63]))
            name, setup, driver = rng.choice(BEHAVIOUR)
            bid = "b%d" % ci
            lines.append("(do %s\n (def drv %s)\n (def c1 (protect (rt-dict orig))) (def c2 (protect (rt-dict orig)))\n"
                         " (report \"%s\" \"copy2-independent\" (fn [] (drv (get-ok c2))))\n (report \"%s\" \"orig\" (fn [] (drv orig)))\n (report \"%s\" \"copy\" (fn [] (drv (get-ok c1)))))" %
                         (setup % p, driver % p, bid, bid, bid))
            exp.append((bid, name, setup % p, driver % p))
        # closures marshalled while their environment is still on the creator's stack, with the captured slots at various register numbers
        for ci in range(4):
            npad = rng.choice([0, 5, 28, 29, 30, 31, 32, 33, 40, 62, 63, 64, 65, 100, 130]) if rng.random() < 0.5 else rng.randrange(0, 135)
            a, b = rng.choice([0, 1, 7, -5]), rng.choice([1, 2, 5])
            pads = " ".join("(def p%d %d)" % (i, i) for i in range(npad))
            usep = "(+ p0 p%d)" % (npad - 1) if npad else "0"
            oid = "s%d" % ci
            setup = ("(var inside nil) (var inside2 nil) (defn mk [] %s (var n %d) (var m %d) (def pair [(fn bump [] (+= m 1) (++ n)) (fn peek [] [n m %s])]) "
                     "(set inside (rt-dict pair)) (set inside2 (rt-dict pair)) pair) (def orig (mk))" % (pads, a, b, usep))
            drv = "(fn [o] (string/format \"%j\" [((o 0)) ((o 0)) ((o 1)) ((o 0)) ((o 1))]))"
            lines.append("(do %s\n (def drv %s)\n (report \"%s\" \"copy2-independent\" (fn [] (drv inside2)))\n (report \"%s\" \"orig\" (fn [] (drv orig)))\n"
                         " (report \"%s\" \"copy\" (fn [] (drv inside))))" % (setup, drv, oid, oid, oid))
            exp.append((oid, "onstack-env-pads%s" % ("<32" if npad < 29 else ">=32"), setup, drv))
        # a closure FACTORY marshalled as a function value (its definition carries the closure bitset) with every slot count from a few to 135:
        # closures made by the copy must capture like those made by the original
        for ci in range(4):
            npad = rng.randrange(0, 135)
            a = rng.choice([0, 1, 7, -5])
            pads = " ".join("(def q%d %d)" % (i, i) for i in range(npad))
            useq = "(+ q0 q%d)" % (npad - 1) if npad else "0"
            fid = "f%d" % ci
            setup = "(def orig (fn factory [k] %s (var n k) (var m %d) [(fn bump [] (+= m 1) (++ n)) (fn peek [] [n m %s])]))" % (pads, a, useq)
            drv = "(fn [o] (def [bump peek] (o 10)) (string/format \"%j\" [(bump) (bump) (peek) (do (def [b2 p2] (o 20)) (b2) (p2)) (peek)]))"
            lines.append("(do %s\n (def drv %s)\n (def c1 (protect (rt-dict orig))) (def c2 (protect (rt-dict (rt-dict orig))))\n"
                         " (report \"%s\" \"copy2-independent\" (fn [] (drv (get-ok c2))))\n (report \"%s\" \"orig\" (fn [] (drv orig)))\n (report \"%s\" \"copy\" (fn [] (drv (get-ok c1)))))" %
                         (setup, drv, fid, fid, fid))
            exp.append((fid, "closure-factory-slots", setup, drv))
        # asm(disasm f)
        for ci in range(8):
            p = dict(a=rng.choice([0, 1, 3, 9]), b=rng.choice([1, 2, 5]), pad=" ".join("(+= r %d)" % (i % 7) for i in range(rng.choice([3, 40, 130, 300]))))
            src = rng.choice(ASM_FUNCS) % p
            aid = "a%d" % ci
            drv = "(fn [f] (string/join (map (fn [args] (let [r (protect (f ;args))] (string/format \"%j\" (if (r 0) r [false :raised])))) [[1 2] [0 0] [5 3] [2 2] [-3 7] [-128 127] [-32768 32768]]) \" \"))"
            lines.append("(do (def orig %s) (def drv %s)\n (report \"%s\" \"orig\" (fn [] (drv orig)))\n (report \"%s\" \"copy\" (fn [] (drv (asm (disasm orig)))))\n"
                         " (report \"%s\" \"copy2-independent\" (fn [] (drv (rt-dict orig)))))" % (src, drv, aid, aid, aid))
            exp.append((aid, "asm-disasm", src, drv))
        # PEG round trips (behaviour = match results on texts)
        for ci in range(40):
            g = model_peg.Gen(rng)
            rules = g.grammar(rng.choice([1, 2, 3]))
            gsrc = model_peg.emit_grammar(rules)
            tlist = [g.text() for _ in range(4)]
            # the reference interpreter's step budget screens out grammars with exponential backtracking on these texts
            if any(model_peg.match(rules, t)[0] in ("budget", "unmodelled") for t in tlist):
                continue
            texts = " ".join(jbytes(t) for t in tlist)
            pid = "p%d" % ci
            drv = "(fn [pg] (string/join (map (fn [t] (string/format \"%%j\" (first (protect (canon (peg/match pg t)))))) [%s]) \" \"))" % texts
            lines.append("(do %s (def orig (protect (peg/compile %s)))\n (when (orig 0) (def drv %s)\n (report \"%s\" \"orig\" (fn [] (drv (orig 1))))\n"
                         " (report \"%s\" \"copy\" (fn [] (drv (rt-dict (orig 1)))))\n (report \"%s\" \"copy2-independent\" (fn [] (drv (rt-dict (rt-dict (orig 1))))))))" %
                         (model_peg.FUNC_DEFS, gsrc, drv, pid, pid, pid))
            exp.append((pid, "peg:" + "+".join(sorted(f for f in g.features if f.startswith("readint"))), gsrc, drv))
        for ci, (fam, gsrc, texts) in enumerate(PEG_DIRECTED):
            pid = "d%d" % ci
            tlist = " ".join('"%s"' % t for t in texts)
            drv = "(fn [pg] (string/join (map (fn [t] (string/format \"%%j\" (protect (canon (peg/match pg t 0 :arg0))))) [%s]) \" \"))" % tlist
            lines.append("(do %s (def orig (peg/compile %s))\n (def drv %s)\n (report \"%s\" \"orig\" (fn [] (drv orig)))\n"
                         " (report \"%s\" \"copy\" (fn [] (drv (rt-dict orig))))\n (report \"%s\" \"copy2-independent\" (fn [] (drv (rt-dict (rt-dict orig))))))" %
                         (model_peg.FUNC_DEFS, gsrc, drv, pid, pid, pid))
            exp.append((pid, "peg-directed:" + fam, gsrc, drv))
        script = "\n".join(lines) + "\n"
        d = core.case_dir()
        path = os.path.join(d, "beh.janet")
        open(path, "w").write(script)
        res = core.run([exe, path], timeout=600, cpu=400)
        files = {"beh.janet": script}
        ctx.check_result(res, files, where="behaviour")
        got = {}
        for line in res.out.decode(errors="replace").splitlines():
            p = line.split(" ", 2)
            if len(p) == 3:
                got.setdefault(p[0], {})[p[1]] = p[2]
        core.discard(res)
        for bid, name, setup, driver in exp:
            g2 = got.get(bid)
            if not g2 or "orig" not in g2:
                if not (bid.startswith("p") and not g2):     # random PEG sources that do not compile print nothing by design
                    ctx.violation("no-output:behaviour:" + name.split(":")[0], "behaviour case %s (%s) produced no trace: the script ended early; stderr %r" % (bid, name, res.err[-300:]), files)
                    break
                continue
            for tag in ("copy", "copy2-independent"):
                if tag not in g2:
                    continue
                ctx.evals()
                ctx.count("beh:" + name.split(":")[0])
                ctx.nontriv((bi, bid, tag))
                if g2[tag] != g2["orig"]:
                    kind = "raised" if g2[tag].startswith("ERR") else "differs"
                    ctx.violation("behaviour:%s:%s" % (name, kind), "%s: original trace %r, copy (%s) trace %r; setup %s" % (name, g2["orig"][:200], tag, g2[tag][:200], setup[:300]),
                                  {"case.janet": script, "setup.txt": setup, "driver.txt": driver})
            ctx.sample({"behaviour": name, "trace": g2["orig"][:120]}, cap=8)

    core.pmap(do_beh, range((nbeh + 25) // 26))

    if not quick:
        all_int32(ctx, exe)


INT32 = r'''
(def [lo hi] (map scan-number (slice (dyn :args) 1)))
(var bad 0)
(var n 0)
(var base lo)
(while (< base hi)
  (def arr (array/new 65536))
  (for i 0 65536 (array/push arr (- (+ base i) 2147483648)))
  (def back (unmarshal (marshal arr)))
  (for i 0 65536 (unless (= (in arr i) (in back i)) (++ bad) (when (< bad 5) (print "BAD " (in arr i) " -> " (in back i)))))
  (+= n 65536)
  (+= base 65536))
(print "checked " n " bad " bad)
'''


def all_int32(ctx, exe_asan):
    exe = build.janet("plain")
    d = core.case_dir()
    path = os.path.join(d, "int32.janet")
    open(path, "w").write(INT32)
    shards = 256
    step = (1 << 32) // shards

    def one(i):
        res = core.run([exe, path, str(i * step), str((i + 1) * step)], timeout=3000, cpu=2900)
        core.discard(res)
        out = res.out.decode(errors="replace")
        if not ctx.check_result(res, {"int32.janet": INT32}, where="int32"):
            return
        last = out.strip().splitlines()[-1] if out.strip() else ""
        if not last.startswith("checked"):
            ctx.violation("int32-sweep-failed", "shard %d: %s %s" % (i, out[-200:], res.err[-200:]), {"int32.janet": INT32})
            return
        n, bad = int(last.split()[1]), int(last.split()[3])
        ctx.evals(n)
        ctx.count("int32_values", n)
        if bad:
            ctx.violation("int32-roundtrip", "shard %d: %d integers did not round-trip: %s" % (i, bad, out[:300]), {"int32.janet": INT32})
    core.pmap(one, range(shards))
    ctx.extra["int32_exhaustive"] = True
