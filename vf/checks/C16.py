"""C16 — stream and subprocess I/O delivers every byte once, in order.

Scenario scripts move self-describing payloads (byte k of writer w is a function of
(w, k)) through pipes, unix and TCP loopback sockets, datagrams and subprocess
stdin/stdout/stderr with many sizes, read modes, slow readers and close points. Every
operation is logged at the client boundary; the receiver compares what arrived with the
regenerated pattern. Rules: received == written (complete, no duplicate, in order),
chunk reads return exactly n before end of stream, reads return nil at end of stream,
every issued operation returns or raises (close wakes pending operations), exit status
and redirected output of subprocesses are exact."""
import os
import random
import re

from vf import build, core

LEVEL = "exploration"

PRELUDE = r'''
(defn pattern [w n &opt start]
  (default start 0)
  (def b (buffer/new n))
  (for k start (+ start n) (buffer/push-byte b (band 0xFF (+ (* w 31) (* k 7) (brshift k 8)))))
  b)
(defn first-diff [a b]
  (var i 0)
  (def n (min (length a) (length b)))
  (while (and (< i n) (= (in a i) (in b i))) (++ i))
  i)
(defn verdict [tag got expected]
  (if (= (string got) (string expected))
    (print "V " tag " MATCH " (length got))
    (print "V " tag " MISMATCH got=" (length got) " expected=" (length expected) " first-diff=" (first-diff got expected))))
(var OPS 0) (var RETS 0)
(defmacro op [tag form]
  ~(do (++ OPS) (def r (try ,form ([e] (eprint "OPERR " ,tag " " e) :raised))) (++ RETS) r))
(defn finish []
  (print "OPS " OPS " RETS " RETS)
  (print "DONE")
  (flush)
  (os/exit 0))
(ev/spawn (ev/sleep 25) (print "OPS " OPS " RETS " RETS) (print "WATCHDOG") (flush) (os/exit 3))
'''

SIZES = [0, 1, 2, 255, 4095, 4096, 4097, 65535, 65536, 65537, 70000, 200000, 1000000, 3000000]


def make_pair(kind, d, port_hint):
    """janet code defining `wr` (write end) and `rd` (read end), plus cleanup."""
    if kind == "pipe":
        return "(def [rd wr] (os/pipe))"
    if kind == "unix":
        path = os.path.join(d, "sock")
        return ('(def srv (net/listen :unix "%s"))\n(def wr-ch (ev/chan 1))\n(ev/spawn (ev/give wr-ch (net/accept srv)))\n'
                '(def rd (net/connect :unix "%s"))\n(def wr (ev/take wr-ch))') % (path, path)
    if kind == "tcp":
        return ('(def srv (net/listen "127.0.0.1" "0"))\n(def [_ port] (net/localname srv))\n(def wr-ch (ev/chan 1))\n(ev/spawn (ev/give wr-ch (net/accept srv)))\n'
                '(def rd (net/connect "127.0.0.1" (string port)))\n(def wr (ev/take wr-ch))')
    raise ValueError(kind)


def scenario_transfer(rng, d):
    kind = rng.choice(["pipe", "pipe", "unix", "tcp"])
    size = rng.choice(SIZES)
    wchunk = rng.choice([size or 1, size or 1, 1000, 4096, 65536, 7, 100000])
    if wchunk < 64 and size > 20000:
        wchunk = 4096
    rmode = rng.choice(["read", "read", "chunk", "all"])
    rsize = rng.choice([1, 7, 4096, 65536, 100, 1000000]) if size < 300000 else rng.choice([4096, 65536, 1000000, 999])
    if rsize < 16 and size > 5000:
        rsize = 777
    slow = rng.random() < 0.3
    lines = [PRELUDE, make_pair(kind, d, 0)]
    lines.append("(def payload (pattern 1 %d))" % size)
    lines.append("(ev/spawn (var off 0) (while (< off %d) (def n (min %d (- %d off))) (op \"write\" (ev/write wr (buffer/slice payload off (+ off n)))) (+= off n)) (op \"close-w\" (ev/close wr)))" % (size, wchunk, size))
    lines.append("(def got @\"\")")
    sl = "(ev/sleep 0.0005)" if slow else ""
    if rmode == "read":
        lines.append("(var chunks 0) (forever (def c (op \"read\" (ev/read rd %d))) (when (or (nil? c) (= c :raised)) (print \"EOF \" c) (break)) (++ chunks) (when (= 0 (length c)) (print \"EMPTY-READ\")) (buffer/push got c) %s)" % (rsize, sl))
    elif rmode == "chunk":
        lines.append("(forever (def c (op \"chunk\" (ev/chunk rd %d))) (when (or (nil? c) (= c :raised)) (print \"EOF \" c) (break)) (buffer/push got c) (when (not= (length c) %d) (print \"SHORT-CHUNK \" (length c) \" at \" (length got))) %s)" % (rsize, rsize, sl))
    else:
        lines.append("(def c (op \"read-all\" (ev/read rd :all))) (when c (buffer/push got c)) (print \"EOF \" (op \"read-after-all\" (ev/read rd 10)))")
    lines.append("(verdict \"transfer\" got payload)")
    lines.append("(finish)")
    # sockets have a second family of entry points (net/read, net/chunk, net/write and the stream methods) with their own state machines
    api = "ev"
    if kind in ("unix", "tcp"):
        api = rng.choice(["ev", "net", "method"])
        if api == "net":
            lines = [l.replace("(ev/read rd", "(net/read rd").replace("(ev/chunk rd", "(net/chunk rd").replace("(ev/write wr", "(net/write wr") for l in lines]
        elif api == "method":
            lines = [l.replace("(ev/read rd", "(:read rd").replace("(ev/chunk rd", "(:chunk rd").replace("(ev/write wr", "(:write wr") for l in lines]
    meta = dict(template="transfer", kind=kind, size=size, wchunk=wchunk, rmode=rmode, rsize=rsize, slow=slow, api=api)
    return "\n".join(lines) + "\n", meta


def scenario_duplex(rng, d):
    kind = rng.choice(["unix", "tcp"])
    n = rng.choice([1, 3, 10])
    size = rng.choice([1, 100, 4096, 65537, 300000])
    lines = [PRELUDE, make_pair(kind, d, 0)]
    lines.append("(ev/spawn (forever (def c (op \"srv-read\" (ev/read wr 65536))) (when (or (nil? c) (= c :raised)) (break)) (op \"srv-write\" (ev/write wr c))) (op \"srv-close\" (ev/close wr)))")
    lines.append("(for i 0 %d (def msg (pattern (+ i 2) %d)) (def w (ev/spawn (op \"cli-write\" (ev/write rd msg)))) (def back (op \"cli-chunk\" (ev/chunk rd %d))) (verdict (string \"echo\" i) back msg))" % (n, size, size))
    lines.append("(op \"cli-close\" (ev/close rd))")
    lines.append("(ev/sleep 0.05)")
    lines.append("(finish)")
    return "\n".join(lines) + "\n", dict(template="duplex", kind=kind, n=n, size=size)


def scenario_subprocess(rng, d, exe):
    size = rng.choice([0, 1, 4096, 65536, 65537, 500000])
    code = rng.choice([0, 1, 3, 7, 42, 127, 255])
    variant = rng.choice(["echo", "echo", "stderr", "merge", "execute", "signal", "shared-pipe", "shared-file"])
    lines = [PRELUDE]
    lines.append("(def payload (pattern 3 %d))" % size)
    if variant == "echo":
        child = "(def b (:read stdin :all)) (when b (:write stdout b)) (:flush stdout) (os/exit %d)" % code
        lines.append('(def p (os/spawn ["%s" "-e" %s] :p {:in :pipe :out :pipe}))' % (exe, repr_j(child)))
        lines.append("(ev/spawn (op \"w-stdin\" (ev/write (p :in) payload)) (op \"close-stdin\" (ev/close (p :in))))")
        lines.append("(def back (op \"r-stdout\" (ev/read (p :out) :all)))")
        lines.append("(verdict \"child-echo\" (or back @\"\") payload)")
        lines.append("(print \"EXIT \" (op \"wait\" (os/proc-wait p)))")
    elif variant == "stderr":
        child = "(eprin (string/repeat \"E\" %d)) (prin (string/repeat \"O\" %d)) (flush) (eflush) (os/exit %d)" % (min(size, 70000), min(size, 70000) // 2, code)
        lines.append('(def p (os/spawn ["%s" "-e" %s] :p {:out :pipe :err :pipe}))' % (exe, repr_j(child)))
        lines.append("(def o-ch (ev/chan 1)) (ev/spawn (ev/give o-ch (or (op \"r-out\" (ev/read (p :out) :all)) @\"\")))")
        lines.append("(def e (or (op \"r-err\" (ev/read (p :err) :all)) @\"\")) (def o (ev/take o-ch))")
        lines.append("(verdict \"child-stderr\" e (string/repeat \"E\" %d)) (verdict \"child-stdout\" o (string/repeat \"O\" %d))" % (min(size, 70000), min(size, 70000) // 2))
        lines.append("(print \"EXIT \" (op \"wait\" (os/proc-wait p)))")
    elif variant == "merge":
        child = "(prin \"out1 \") (flush) (eprin \"err1 \") (eflush) (prin \"out2\") (flush) (os/exit %d)" % code
        lines.append('(def p (os/spawn ["%s" "-e" %s] :p {:out :pipe :err :out}))' % (exe, repr_j(child)))
        lines.append("(def o (or (op \"r-out\" (ev/read (p :out) :all)) @\"\"))")
        lines.append("(verdict \"child-merged\" o \"out1 err1 out2\")")
        lines.append("(print \"EXIT \" (op \"wait\" (os/proc-wait p)))")
    elif variant == "shared-pipe":
        # one user-supplied stream given for two of the child's descriptors
        child = "(prin \"out1 \") (flush) (eprin \"err1 \") (eflush) (prin \"out2\") (flush) (os/exit %d)" % code
        lines.append("(def [rd wr] (os/pipe))")
        lines.append('(def p (op "spawn" (os/spawn ["%s" "-e" %s] :p {:out wr :err wr})))' % (exe, repr_j(child)))
        lines.append("(ev/close wr)")
        lines.append("(def o (or (op \"r-shared\" (ev/read rd :all)) @\"\"))")
        lines.append("(verdict \"child-shared-pipe\" o \"out1 err1 out2\")")
        lines.append("(print \"EXIT \" (op \"wait\" (os/proc-wait p)))")
    elif variant == "shared-file":
        child = "(prin \"out1 \") (flush) (eprin \"err1 \") (eflush) (prin \"out2\") (flush) (os/exit %d)" % code
        fpath = os.path.join(d, "shared-out.txt")
        lines.append('(def f (file/open "%s" :w))' % fpath)
        lines.append('(print "EXIT " (op "execute" (os/execute ["%s" "-e" %s] :p {:out f :err f})))' % (exe, repr_j(child)))
        lines.append("(file/close f)")
        lines.append('(verdict "child-shared-file" (slurp "%s") "out1 err1 out2")' % fpath)
    elif variant == "execute":
        lines.append('(print "EXIT " (op "execute" (os/execute ["%s" "-e" "(os/exit %d)"] :p)))' % (exe, code))
    else:
        lines.append('(def p (os/spawn ["%s" "-e" "(os/sleep 30)"] :p))' % exe)
        lines.append("(ev/sleep 0.05) (op \"kill\" (os/proc-kill p false :term))")
        lines.append("(print \"EXIT \" (op \"wait\" (os/proc-wait p)))")
        code = 143
    lines.append("(finish)")
    return "\n".join(lines) + "\n", dict(template="subprocess", variant=variant, size=size, code=code)


def scenario_close_wakes(rng, d):
    kind = rng.choice(["pipe", "unix", "tcp"])
    which = rng.choice(["reader", "writer", "both"] if kind != "pipe" else ["reader", "writer"])
    lines = [PRELUDE, make_pair(kind, d, 0)]
    lines.append("(def res @{})")
    if which in ("reader", "both"):
        lines.append("(ev/spawn (put res :reader (op \"pending-read\" (ev/read rd 100))) (put res :reader-done true))")
    if which in ("writer", "both"):
        target = "rd" if which == "both" else "wr"
        lines.append("(ev/spawn (put res :writer (op \"pending-write\" (ev/write %s (pattern 5 8000000)))) (put res :writer-done true))" % target)
    lines.append("(ev/sleep 0.05)")
    if which == "reader":
        lines.append("(op \"close\" (ev/close rd))")
    elif which == "writer":
        lines.append("(op \"close\" (ev/close wr))")
    else:
        lines.append("(op \"close\" (ev/close rd))")
    lines.append("(ev/sleep 0.1)")
    lines.append("(print \"WOKEN reader=\" (res :reader-done) \" writer=\" (res :writer-done))")
    lines.append("(finish)")
    return "\n".join(lines) + "\n", dict(template="close-wakes", kind=kind, which=which)


def scenario_datagram(rng, d):
    n = rng.choice([1, 5, 20])
    size = rng.choice([1, 100, 1400, 8000])
    lines = [PRELUDE]
    lines.append('(def a (net/listen "127.0.0.1" "0" :datagram)) (def [_ pa] (net/localname a))')
    lines.append('(def b (net/listen "127.0.0.1" "0" :datagram))')
    lines.append('(def dest (net/address "127.0.0.1" pa :datagram))')
    lines.append("(ev/spawn (for i 0 %d (op \"send\" (net/send-to b dest (pattern (+ i 1) %d))) (ev/sleep 0.001)))" % (n, size))
    lines.append("(for i 0 %d (def buf @\"\") (def r (op \"recv\" (ev/with-deadline 0.3 (net/recv-from a 65536 buf)))) (if (= r :raised) (print \"DGRAM-MISSING \" i) (verdict (string \"dgram\" i) buf (pattern (+ i 1) %d))))" % (n, size))
    lines.append("(ev/sleep 0.05)")
    lines.append("(finish)")
    return "\n".join(lines) + "\n", dict(template="datagram", n=n, size=size)


def scenario_shared(rng, d):
    """two fibers issuing the same kind of operation on one stream"""
    which = rng.choice(["readers", "writers"])
    lines = [PRELUDE, make_pair("pipe", d, 0)]
    lines.append("(def res @{})")
    if which == "readers":
        lines.append("(ev/spawn (put res :r1 (op \"read1\" (ev/read rd 10))) (put res :r1-done true))")
        lines.append("(ev/spawn (put res :r2 (op \"read2\" (ev/read rd 10))) (put res :r2-done true))")
        lines.append("(ev/sleep 0.02) (op \"write\" (ev/write wr \"0123456789ABCDEFGHIJ\")) (ev/sleep 0.02) (op \"close\" (ev/close wr)) (ev/sleep 0.1)")
        lines.append("(print \"SHARED readers done: \" (res :r1-done) \" \" (res :r2-done) \" total=\" (+ (length (or (res :r1) \"\")) (length (or (res :r2) \"\"))))")
    else:
        lines.append("(def p1 (pattern 1 300000)) (def p2 (pattern 2 300000))")
        lines.append("(ev/spawn (op \"write1\" (ev/write wr p1)) (put res :w1-done true))")
        lines.append("(ev/spawn (op \"write2\" (ev/write wr p2)) (put res :w2-done true))")
        lines.append("(def got @\"\") (ev/spawn (forever (def c (ev/read rd 65536)) (if c (buffer/push got c) (break))))")
        lines.append("(ev/sleep 0.3) (op \"close\" (ev/close wr)) (ev/sleep 0.1)")
        lines.append("(print \"SHARED writers done: \" (res :w1-done) \" \" (res :w2-done) \" total=\" (length got))")
    lines.append("(finish)")
    return "\n".join(lines) + "\n", dict(template="shared", which=which)


def repr_j(s):
    from vf.canon import jbytes
    return jbytes(s.encode())


def judge(ctx, meta, res, files):
    out = res.out.decode(errors="replace")
    err = res.err.decode(errors="replace")
    t = meta["template"]
    tag = t + ":" + str(meta.get("kind", meta.get("variant", meta.get("which", ""))))
    lines = out.splitlines()
    if "WATCHDOG" in out or res.timed_out:
        m = re.search(r"OPS (\d+) RETS (\d+)", out)
        ctx.violation("operation-never-returned:" + tag, "scenario did not finish: %s; an issued operation neither returned nor raised (%s)" % (meta, m.group(0) if m else "?"), files)
        return
    if "DONE" not in out:
        ctx.violation("scenario-aborted:" + tag, "scenario ended without DONE: rc=%s stderr=%s" % (res.rc, err[-300:]), files)
        return
    m = re.search(r"OPS (\d+) RETS (\d+)", out)
    if m and m.group(1) != m.group(2):
        ctx.violation("operation-never-returned:" + tag, "%s operations issued, %s returned" % (m.group(1), m.group(2)), files)
    for l in lines:
        if l.startswith("V ") and "MISMATCH" in l:
            ctx.violation("bytes-differ:" + tag, "%s: %s" % (meta, l), files)
        if l.startswith("SHORT-CHUNK"):
            # a short chunk is legitimate only as the last one before end of stream
            idx = lines.index(l)
            rest = [x for x in lines[idx + 1:] if x.startswith(("SHORT-CHUNK", "EOF"))]
            if not rest or not rest[0].startswith("EOF"):
                ctx.violation("short-chunk:" + tag, "%s: %s not followed by end of stream" % (meta, l), files)
        if l.startswith("EMPTY-READ"):
            ctx.violation("empty-read:" + tag, "a read returned an empty buffer instead of data or nil", files)
        if l.startswith("EOF ") and t == "transfer" and l.strip() != "EOF nil" and l.strip() != "EOF":
            ctx.violation("eof-not-nil:" + tag, "end of stream reported as %r" % l, files)
    if t == "subprocess":
        ex = [l for l in lines if l.startswith("EXIT ")]
        if not ex or ex[0].split()[1] != str(meta["code"]):
            ctx.violation("exit-status:" + meta["variant"], "expected exit status %s, got %r" % (meta["code"], ex), files)
    if t == "close-wakes":
        w = [l for l in lines if l.startswith("WOKEN")]
        want_r = meta["which"] in ("reader", "both")
        want_w = meta["which"] in ("writer", "both")
        if not w or (want_r and "reader=true" not in w[0]) or (want_w and "writer=true" not in w[0]):
            ctx.violation("close-did-not-wake:%s:%s" % (meta["kind"], meta["which"]), "after close: %r" % w, files)
    if t == "shared":
        s = [l for l in lines if l.startswith("SHARED")]
        if not s or "true true" not in s[0]:
            ctx.violation("shared-stream-operation-lost:" + meta["which"], "two fibers used one stream for the same direction; %r (one operation never completed nor raised)" % s, files)
        elif meta["which"] == "writers" and "total=600000" not in s[0] and "OPERR write" not in err:
            ctx.violation("shared-stream-bytes-lost:writers", "%r" % s, files)
    if t == "datagram":
        miss = sum(1 for l in lines if l.startswith("DGRAM-MISSING"))
        if miss:
            ctx.count("datagrams_missing_inconclusive", miss)
    ctx.count("scenario:" + t)


def run(ctx):
    exe = build.janet("plain")
    asan = build.janet("asan")
    quick = ctx.tier == "quick"
    total = 900 if quick else 15000
    ctx.rule = ("scenario x parameters: single-stream transfers (pipe/unix/TCP, sizes 0..3 MB around buffer sizes, write chunkings, read/chunk/:all modes, slow readers), "
                "duplex echo, subprocess stdin/stdout/stderr/merged output/exit status/kill, close waking pending readers and writers, datagrams, two fibers "
                "sharing one stream direction; every third scenario on the ASan build; non-trivial = payload larger than the pipe/socket buffer (needs several "
                "readiness events) or an operation completed by close")
    ctx.assumptions = ["the receiver compares with a regenerated pattern (pattern function in the prelude)", "missing loopback datagrams are inconclusive, never a violation",
                       "no EAGAIN/short-write injection: back-pressure comes from real buffer sizes"]
    gens = [scenario_transfer] * 10 + [scenario_duplex] * 2 + [scenario_subprocess] * 4 + [scenario_close_wakes] * 3 + [scenario_datagram] + [scenario_shared] * 1

    def one(i):
        rng = random.Random(ctx.sub_seed("s", i))
        d = core.case_dir()
        g = rng.choice(gens)
        binary = asan if i % 3 == 0 else exe
        script, meta = g(rng, d, binary) if g is scenario_subprocess else g(rng, d)
        path = os.path.join(d, "scenario.janet")
        open(path, "w").write(script)
        res = core.run([binary, path], timeout=60, cpu=50, cwd=d)
        files = {"scenario.janet": script, "stdout.txt": res.out[-3000:], "stderr.txt": res.err[-3000:]}
        core.discard(res)
        ctx.evals()
        if not ctx.check_result(res, files, where=meta["template"], allow_timeout=True):
            if not res.timed_out:
                return
        judge(ctx, meta, res, files)
        if meta.get("size", 0) > 65536 or meta["template"] in ("close-wakes", "shared"):
            ctx.nontriv((meta["template"], i))
        ctx.sample(meta, cap=6)

    core.pmap(one, range(total), jobs=12)
