"""C05 — fibers follow the coroutine and signal protocol.

Generated trees of nested fibers (random signal masks, yields, errors, user signals
0-9, cancel, status queries, generators consumed by loops, defer/try scopes, dynamic
bindings with env flags) are run by janet and by a protocol model written from the
documentation (Python generators, one per fiber); the logged traces must be equal."""
import os
import random

from vf import build, core
from vf.canon import Kw, Tup, canon, emit

LEVEL = "exploration"

PRELUDE = open(os.path.join(core.VERIF, "janet", "canon.janet")).read() + r'''
(def LOG @[])
(defn log [& xs] (array/push LOG (tuple ;xs)) (last xs))
# run a thunk from inside a callback that C code calls back into (janet_call), and hand its result through
(defn via-replace [thunk] (var r nil) (string/replace "a" (fn [_] (set r (thunk)) "x") "a") r)
(defn via-cmt [thunk] (var r nil) (peg/match ~(cmt (<- 1) ,(fn [_] (set r (thunk)) true)) "a") r)
'''

TERMINAL = {"error", "user0", "user1", "user2", "user3", "user4"}
RESUMABLE = {"new", "pending", "debug", "user5", "user6", "user7", "interrupted", "suspended"}


class MError(Exception):
    def __init__(self, value):
        self.value = value


class MTerm(Exception):
    """user0-4 raised inside cleanup scopes"""
    def __init__(self, sig, value):
        self.sig, self.value = sig, value


class CancelToken:
    def __init__(self, value):
        self.value = value


def mask_set(mask):
    s = set()
    for ch in mask:
        if ch == "a":
            s |= {"debug", "error", "yield"} | {"user%d" % i for i in range(10)}
        elif ch == "t":
            s |= {"error", "user0", "user1", "user2", "user3", "user4"}
        elif ch == "d":
            s.add("debug")
        elif ch == "e":
            s.add("error")
        elif ch == "u":
            s |= {"user%d" % i for i in range(10)}
        elif ch == "y":
            s.add("yield")
        elif ch == "w":
            s.add("user9")
        elif ch == "r":
            s.add("user8")
        elif ch.isdigit():
            s.add("user" + ch)
    return s


STATUS_OF = {"ok": "dead", "error": "error", "yield": "pending", "debug": "debug"}
for _i in range(10):
    STATUS_OF["user%d" % _i] = "user%d" % _i
STATUS_OF["user8"] = "interrupted"
STATUS_OF["user9"] = "suspended"


class MFiber:
    def __init__(self, fid, mask, body, creator_env, envflag):
        self.fid = fid
        # without a flags argument the default mask is :y; any flags argument (even only an env flag) replaces it
        self.mask = {"yield"} if (mask is None and not envflag) else mask_set(mask or "")
        self.body = body
        self.status = "new"
        self.gen = None
        self.child = None
        self.last_value = None
        if envflag == "i":
            self.env = creator_env            # shared table object
        elif envflag == "p":
            self.env = {"__proto__": creator_env}
        else:
            self.env = None
        self.bubbling = False


class Model:
    def __init__(self):
        self.log = []
        self.fibers = {}
        self.steps = 0
        self.depth2_signals = 0
        self.cleanup_on_abnormal = 0

    def L(self, *xs):
        self.log.append(Tup(list(xs)))

    # ---- driving a fiber to its next signal
    def step(self, f, value, cancel=False):
        """Resume fiber f with value (or cancel it); returns (signal, value)."""
        self.steps += 1
        if self.steps > 20000:
            raise RuntimeError("budget")
        f.last_value = None
        try:
            if f.gen is None:
                if cancel:
                    sig, x = "error", value
                    f.status = STATUS_OF[sig]
                    f.last_value = x
                    return sig, x
                f.gen = self.run_fiber(f)
                f.status = "alive"
                out = next(f.gen)
            else:
                f.status = "alive"
                if f.bubbling:
                    out = f.gen.send(CancelToken(value) if cancel else value)
                elif cancel:
                    out = f.gen.throw(MError(value))
                else:
                    out = f.gen.send(value)
            sig, x = out[0], out[1]
            f.bubbling = len(out) > 2
        except StopIteration as st:
            sig, x = "ok", st.value
            f.bubbling = False
        f.status = STATUS_OF[sig]
        f.last_value = x
        return sig, x

    def run_fiber(self, f):
        try:
            r = yield from self.block(f, f.body)
            return r
        except MError as e:
            yield ("error", e.value)
            raise RuntimeError("resumed a fiber in error status")
        except MTerm as t:
            yield (t.sig, t.value)
            raise RuntimeError("resumed a fiber in terminal status")

    def can_resume_error(self, c):
        if c.status in ("alive", "dead", "error", "user0", "user1", "user2", "user3", "user4"):
            return "cannot resume fiber with status :%s" % c.status
        return None

    def do_resume(self, f, c, value, cancel=False, via_c=False):
        msg = self.can_resume_error(c)
        if msg:
            raise MError(msg.encode())
        f.child = c
        v = value
        depth = 0
        while True:
            sig, x = self.step(c, v, cancel)
            if sig == "ok" or sig in c.mask:
                f.child = None
                return x
            depth += 1
            if via_c and sig != "error":
                # a non-error signal leaving through a C callback is coerced to an error by janet_call: deliberately not modelled
                raise RuntimeError("c-boundary")
            if sig in TERMINAL:
                # the signal leaves this fiber as well (through its cleanup scopes), keeping c as its child
                f.last_value = c.last_value
                self.depth2_signals += 1
                if sig == "error":
                    raise MError(x)
                raise MTerm(sig, x)
            self.depth2_signals += 1
            got = yield (sig, x, "bubbled")
            if isinstance(got, CancelToken):
                v, cancel = got.value, True
            else:
                v, cancel = got, False
            msg = self.can_resume_error(c)
            if msg:
                raise MError(msg.encode())

    def dyn_get(self, f, k):
        env = f.env
        while env is not None:
            if k in env:
                return env[k]
            env = env.get("__proto__")
        return None

    def block(self, f, actions):
        last = None
        for a in actions:
            kind = a[0]
            if kind == "log":
                self.L(Kw("log"), f.fid, a[1])
            elif kind == "yield":
                got = yield ("yield", a[1])
                self.L(Kw("resumed"), f.fid, got)
            elif kind == "yield-silent":
                yield ("yield", a[1])
            elif kind == "signal":
                n = a[1]
                if n <= 4:
                    raise MTerm("user%d" % n, a[2])
                got = yield ("user%d" % n, a[2])
                self.L(Kw("resumed"), f.fid, got)
            elif kind == "error":
                raise MError(a[1])
            elif kind == "return":
                return a[1]
            elif kind == "spawn":
                cbody = a[4]
                if len(a) > 5 and a[5] == "generate":
                    # (generate [_ :range [0 1]] body...): the body's value is yielded, a further resume ends the fiber with nil
                    if cbody and cbody[-1][0] == "return":
                        cbody = cbody[:-1] + [("yield-silent", cbody[-1][1])]
                    else:
                        cbody = cbody + [("yield-silent", None)]
                c = MFiber(a[1], a[2], cbody, self.ensure_env(f) if a[3] in ("i", "p") else None, a[3])
                self.fibers[a[1]] = c
            elif kind in ("resume", "cancel"):
                c = self.fibers[a[1]]
                x = yield from self.do_resume(f, c, a[2], cancel=(kind == "cancel"))
                self.L(Kw(kind), f.fid, a[1], x, Kw(c.status))
            elif kind == "cresume":
                # the resume happens inside a callback that C code invokes (string/replace, peg cmt): same protocol as a plain resume
                c = self.fibers[a[1]]
                x = yield from self.do_resume(f, c, a[2], via_c=True)
                self.L(Kw("resume"), f.fid, a[1], x, Kw(c.status))
            elif kind in ("presume", "pcancel"):
                c = self.fibers[a[1]]
                try:
                    x = yield from self.do_resume(f, c, a[2], cancel=(kind == "pcancel"))
                    self.L(Kw(kind), f.fid, a[1], Tup([True, x]), Kw(c.status))
                except MError as e:
                    self.L(Kw(kind), f.fid, a[1], Tup([False, e.value]), Kw(c.status))
            elif kind == "status":
                c = self.fibers[a[1]]
                self.L(Kw("status"), f.fid, a[1], Kw(c.status), c.status in RESUMABLE, c.last_value)
            elif kind == "each":
                c = self.fibers[a[1]]
                items = []
                while True:
                    msg = self.can_resume_error(c)
                    if msg:
                        if c.status in ("dead", "error", "user0", "user1", "user2", "user3", "user4"):
                            break
                        raise MError(msg.encode())
                    x = yield from self.do_resume(f, c, None)
                    if c.status in ("dead", "error", "user0", "user1", "user2", "user3", "user4"):
                        break
                    items.append(x)
                    self.L(Kw("item"), f.fid, a[1], x)
                    if len(a) > 2 and a[2]:
                        # the consumer itself suspends between two steps of the iteration
                        got = yield ("yield", x)
                        self.L(Kw("resumed"), f.fid, got)
                self.L(Kw("each-done"), f.fid, a[1], Kw(c.status))
            elif kind == "defer":
                try:
                    yield from self.block(f, a[2])
                except MError:
                    self.L(Kw("cleanup"), f.fid, a[1])
                    self.cleanup_on_abnormal += 1
                    raise
                except MTerm:
                    self.L(Kw("cleanup"), f.fid, a[1])
                    self.cleanup_on_abnormal += 1
                    raise
                self.L(Kw("cleanup"), f.fid, a[1])
            elif kind == "edefer":
                # like defer, but the cleanup form runs only when the body ends abnormally (error or user signal 0-4)
                try:
                    yield from self.block(f, a[2])
                except MError:
                    self.L(Kw("cleanup"), f.fid, a[1])
                    self.cleanup_on_abnormal += 1
                    raise
                except MTerm:
                    self.L(Kw("cleanup"), f.fid, a[1])
                    self.cleanup_on_abnormal += 1
                    raise
            elif kind == "try":
                try:
                    yield from self.block(f, a[2])
                except MError as e:
                    self.L(Kw("caught"), f.fid, a[1], e.value)
            elif kind == "setdyn":
                env = self.ensure_env(f)
                if a[2] is None:
                    env.pop(a[1], None)     # putting nil removes the binding: lookups fall through to the prototype again
                else:
                    env[a[1]] = a[2]
            elif kind == "dyn":
                self.L(Kw("dyn"), f.fid, Kw(a[1]), self.dyn_get(f, a[1]))
            else:
                raise NotImplementedError(kind)
        return last

    def ensure_env(self, f):
        if f.env is None:
            f.env = {}
        return f.env

    def run_main(self, body, resume_values):
        main = MFiber(0, "a", body, None, None)
        main.env = {}
        self.fibers[0] = main
        i = 0
        while main.status in RESUMABLE and i < len(resume_values):
            sig, x = self.step(main, resume_values[i])
            self.L(Kw("main"), Kw({"dead": "ok", "pending": "yield"}.get(main.status, main.status)), x, Kw(main.status))
            i += 1
        return self.log


# ---------------------------------------------------------------- generator

VALS = [1, 2, 3, 7, 10, Kw("a"), Kw("b"), None]


class Gen:
    def __init__(self, rng):
        self.rng = rng
        self.next_id = 1
        self.nfib = 0

    def val(self):
        return self.rng.choice(VALS)

    def body(self, depth, children_budget, in_scope=0):
        r = self.rng
        acts = []
        kids = []
        n = r.choice([2, 3, 4, 5, 6])
        for _ in range(n):
            c = r.random()
            if c < 0.16:
                acts.append(("yield", self.val()))
            elif c < 0.22:
                acts.append(("log", self.val()))
            elif c < 0.27:
                acts.append(("error", r.choice([Kw("boom"), Kw("bad"), 13])))
            elif c < 0.35:
                acts.append(("signal", r.choice([0, 1, 2, 4, 5, 6, 7, 9]), self.val()))
            elif c < 0.50 and depth > 0 and self.nfib < 8:
                cid = self.next_id
                self.next_id += 1
                self.nfib += 1
                mask = r.choice([None, "", "y", "e", "a", "t", "ye", "u", "y5", "e0", "yu", "d", "w", "r", "t7", "y9", "e123"])
                envflag = r.choice(["", "", "i", "p"])
                cbody = self.body(depth - 1, 2)
                flavour = None
                if r.random() < 0.15:
                    # the coro / generate macros: yield-only mask, environment inherited from the creator
                    flavour = r.choice(["coro", "generate"])
                    mask, envflag = "y", "i"
                acts.append(("spawn", cid, mask, envflag, cbody, flavour))
                kids.append(cid)
                acts.append((r.choice(["resume", "resume", "presume"]), cid, self.val()))
            elif c < 0.68 and kids:
                cid = r.choice(kids)
                acts.append((r.choice(["resume", "resume", "resume", "presume", "cancel", "pcancel", "presume", "cresume", "cresume"]), cid, self.val()))
            elif c < 0.76 and kids:
                acts.append(("status", r.choice(kids)))
            elif c < 0.80 and kids:
                acts.append(("each", r.choice(kids), r.random() < 0.5))
            elif c < 0.88 and in_scope < 3:
                tag = r.randrange(100)
                inner = self.body(depth, 1, in_scope + 1)
                # scopes must not end their block with an explicit return (it would only end the scope's own block)
                inner = [a for a in inner if a[0] != "return"]
                acts.append((r.choice(["defer", "try", "defer", "edefer"]), tag, inner))
                kids.extend(self.spawned(inner))
            elif c < 0.93:
                acts.append(("setdyn", r.choice(["k1", "k2"]), self.val()))
            else:
                acts.append(("dyn", r.choice(["k1", "k2"])))
        if in_scope == 0 and r.random() < 0.5:
            acts.append(("return", self.val()))
        return acts

    def spawned(self, acts):
        # children created directly inside a scope are lexically local to it in janet (def inside do): not visible outside
        return []


def emit_block(acts, fid, indent=1, fiber_body=False):
    out = []
    for a in acts:
        k = a[0]
        if k == "log":
            out.append("(log :log %d %s)" % (fid, emit(a[1])))
        elif k == "yield":
            out.append("(log :resumed %d (yield %s))" % (fid, emit(a[1])))
        elif k == "signal":
            if a[1] <= 4:
                out.append("(signal %d %s)" % (a[1], emit(a[2])))
            else:
                out.append("(log :resumed %d (signal %d %s))" % (fid, a[1], emit(a[2])))
        elif k == "error":
            out.append("(error %s)" % emit(a[1]))
        elif k == "return":
            out.append(emit(a[1]))
        elif k == "spawn":
            cid, mask, envflag, cbody = a[1], a[2], a[3], a[4]
            flags = None if (mask is None and not envflag) else (mask or "") + envflag
            body = emit_block(cbody, cid, indent + 1, True)
            flavour = a[5] if len(a) > 5 else None
            if flavour == "coro":
                out.append("(def F%d (coro\n%s))" % (cid, body))
            elif flavour == "generate":
                out.append("(def F%d (generate [gi :range [0 1]]\n%s))" % (cid, body))
            elif flags is None:
                out.append("(def F%d (fiber/new (fn []\n%s)))" % (cid, body))
            else:
                out.append("(def F%d (fiber/new (fn []\n%s) :%s))" % (cid, body, flags) if flags else "(def F%d (fiber/new (fn []\n%s) \"\"))" % (cid, body))
        elif k in ("resume", "cancel"):
            out.append("(let [x (%s F%d %s)] (log :%s %d %d x (fiber/status F%d)))" % (k, a[1], emit(a[2]), k, fid, a[1], a[1]))
        elif k == "cresume":
            route = "via-replace" if (a[1] + fid) % 2 == 0 else "via-cmt"
            out.append("(let [x (%s (fn [] (resume F%d %s)))] (log :resume %d %d x (fiber/status F%d)))" % (route, a[1], emit(a[2]), fid, a[1], a[1]))
        elif k in ("presume", "pcancel"):
            op = "resume" if k == "presume" else "cancel"
            out.append("(let [x (protect (%s F%d %s))] (log :%s %d %d x (fiber/status F%d)))" % (op, a[1], emit(a[2]), k, fid, a[1], a[1]))
        elif k == "status":
            out.append("(log :status %d %d (fiber/status F%d) (fiber/can-resume? F%d) (fiber/last-value F%d))" % (fid, a[1], a[1], a[1], a[1]))
        elif k == "each":
            inner = " (log :resumed %d (yield x))" % fid if (len(a) > 2 and a[2]) else ""
            out.append("(each x F%d (log :item %d %d x)%s) (log :each-done %d %d (fiber/status F%d))" % (a[1], fid, a[1], inner, fid, a[1], a[1]))
        elif k == "defer":
            out.append("(defer (log :cleanup %d %d)\n%s)" % (fid, a[1], emit_block(a[2], fid, indent + 1) or "nil"))
        elif k == "edefer":
            out.append("(edefer (log :cleanup %d %d)\n%s)" % (fid, a[1], emit_block(a[2], fid, indent + 1) or "nil"))
        elif k == "try":
            out.append("(try (do\n%s)\n ([e] (log :caught %d %d e)))" % (emit_block(a[2], fid, indent + 1) or "nil", fid, a[1]))
        elif k == "setdyn":
            out.append("(setdyn :%s %s)" % (a[1], emit(a[2])))
        elif k == "dyn":
            out.append("(log :dyn %d :%s (dyn :%s))" % (fid, a[1], a[1]))
    if fiber_body and not (acts and acts[-1][0] == "return"):
        out.append("nil")
    pad = "  " * indent
    return "\n".join(pad + line for line in out)


RELAY_PROG = r"""
# A relay catches every resumable signal of its child and re-raises it with (propagate value child). That must be
# transparent: the next resume of the relay continues the CHILD with the resume value, and the child's clean-up runs once.
(defn emit [sig x] (if (= sig :yield) (yield x) (signal sig x)))
(def EMS %s)
(def INS %s)
(def DEPTH %d)
(def log @[])
(defn child-fn []
  (defer (array/push log "child-cleanup")
    (each [s v] EMS (array/push log (string "got " (emit s v))))
    :child-done))
(defn make-relay [inner lvl]
  (fn []
    (def c (fiber/new inner :yi5678))
    (defer (array/push log (string "relay-cleanup " lvl))
      (var r (resume c))
      (while (not= :dead (fiber/status c))
        (array/push log (string "forward " lvl " " r))
        (set r (propagate r c)))
      r)))
(var f child-fn)
(for i 0 DEPTH (set f (make-relay f i)))
(def top (fiber/new f :a))
(each x INS
  (when (fiber/can-resume? top)
    (def v (resume top x))
    (print "V " v " " (fiber/status top))))
(each l log (print "L " l))
(print "RELAY-DONE")
"""


def relay_case(ctx, exe, i):
    rng = random.Random(ctx.sub_seed("relay", i))
    n = rng.choice([1, 2, 3, 5])
    depth = rng.choice([0, 1, 1, 2, 3])
    sigs = [rng.choice(["yield", 5, 6, 7, 8]) for _ in range(n)]     # 9 is the event-loop's own signal: not a user protocol
    ems = "[" + " ".join("[%s %d]" % (":yield" if sg == "yield" else sg, 100 + k) for k, sg in enumerate(sigs)) + "]"
    ins = "[" + " ".join(str(200 + k) for k in range(n + 2)) + "]"
    script = RELAY_PROG % (ems, ins, depth)
    want = []
    for k, sg in enumerate(sigs):
        want.append("V %d %s" % (100 + k, "pending" if sg == "yield" else ("interrupted" if sg == 8 else "user%d" % sg)))
    want.append("V child-done dead")
    for k in range(n):
        for lvl in range(depth):
            want.append("L forward %d %d" % (lvl, 100 + k))
        want.append("L got %d" % (200 + k + 1))
    want.append("L child-cleanup")
    for lvl in range(depth):
        want.append("L relay-cleanup %d" % lvl)
    want.append("RELAY-DONE")
    d = core.case_dir()
    path = os.path.join(d, "relay.janet")
    open(path, "w").write(script)
    res = core.run([exe, path], timeout=120)
    files = {"relay.janet": script, "expected.txt": "\n".join(want)}
    usable = ctx.check_result(res, files, where="relay")
    got = res.out.decode(errors="replace").splitlines()
    core.discard(res)
    if not usable:
        return
    ctx.evals()
    ctx.count("relay_programs")
    if depth >= 1:
        ctx.nontriv(("relay", ems, depth))
    if got != want:
        k = 0
        while k < min(len(got), len(want)) and got[k] == want[k]:
            k += 1
        files["observed.txt"] = "\n".join(got)
        ctx.violation("propagate-relay-not-transparent:%s" % ("yield" if "yield" in sigs else "user"),
                      "relay depth %d over signals %s: line %d is %r, expected %r (stderr %s)" % (
                          depth, sigs, k, got[k] if k < len(got) else "<end>", want[k] if k < len(want) else "<end>", res.err.decode(errors="replace")[-200:]), files)


def run(ctx):
    exe = build.janet("plain")
    exe_reloc = build.janet("asan-reloc") if ctx.tier != "quick" else None
    quick = ctx.tier == "quick"
    total = 20000 if quick else 200000
    per = 25
    ctx.rule = ("random fiber trees (depth <= 3, <= 9 fibers) with masks from {none, y, e, a, t, u, d, w, r, digits, combinations}, env flags i/p/none, actions yield / "
                "error / signal 0-9 / return / resume / cancel (plain and under protect) / status+can-resume?+last-value / each over a fiber / defer and try scopes "
                "(nested) / setdyn+dyn; the main fiber is driven by repeated resumes; non-trivial = a signal crossed >= 2 fiber levels and a cleanup ran on a "
                "non-normal exit; distinct by program text")
    ctx.assumptions = ["protocol model in this file (Python generators, one per fiber) written from the fiber documentation", "cleanup scopes are modelled by their documented meaning "
                       "(exit on return/error/user0-4, not on yield/user5-9), not by re-expanding the macros"]
    nb = (total + per - 1) // per

    def do_batch(bi):
        rng = random.Random(ctx.sub_seed("t", bi))
        lines = [PRELUDE]
        exp = {}
        for ci in range(per):
            g = Gen(rng)
            body = g.body(rng.choice([1, 2, 2, 3]), 3)
            resumes = [rng.choice(VALS) for _ in range(6)]
            m = Model()
            try:
                m.run_main(body, resumes)
            except (RuntimeError, RecursionError, KeyError, NotImplementedError, ValueError, TypeError) as ex:
                ctx.count("model_skipped:" + type(ex).__name__)
                continue
            want = canon(m.log)
            pid = "p%d" % ci
            text = ("(do (array/clear LOG)\n (def MAIN (fiber/new (fn []\n%s) :a))\n (each v [%s] (when (fiber/can-resume? MAIN)\n"
                    "   (def r (resume MAIN v)) (def st (fiber/status MAIN))\n"
                    "   (log :main (case st :dead :ok :pending :yield st) r st)))\n (print \"%s \" (canon LOG)))") % (
                emit_block(body, 0, 2, True), " ".join(emit(v) for v in resumes), pid)
            lines.append(text)
            exp[pid] = (want, text, m.depth2_signals, m.cleanup_on_abnormal)
        script = "\n".join(lines) + "\n"
        d = core.case_dir()
        path = os.path.join(d, "fibers.janet")
        open(path, "w").write(script)
        envs = [({}, exe)]
        if exe_reloc and bi % 20 == 0:
            envs.append(({"JANET_VERIF_GC": "always"}, exe_reloc))
        for env, binary in envs:
            res = core.run([binary, path], env=env, timeout=600, cpu=300)
            files = {"fibers.janet": script}
            usable = ctx.check_result(res, files, where="fibers")
            got = {}
            for line in res.out.decode(errors="replace").splitlines():
                p = line.split(" ", 1)
                if len(p) == 2:
                    got[p[0]] = p[1]
            core.discard(res)
            for pid, (want, text, d2, cab) in exp.items():
                if pid not in got:
                    if usable:
                        ctx.violation("no-output", "program %s produced no trace; stderr %s" % (pid, res.err.decode(errors="replace")[-300:]), dict(files, **{"program.janet": PRELUDE + text}))
                    break
                ctx.evals()
                if d2 >= 1 and cab >= 1:
                    ctx.nontriv(hash(text))
                if got[pid] != want:
                    # first differing event
                    ge, we = got[pid].split(" ("), want.split(" (")
                    k = 0
                    while k < min(len(ge), len(we)) and ge[k] == we[k]:
                        k += 1
                    ev = (we[k] if k < len(we) else "<end>").split(" ")[0]
                    ctx.violation("trace-differs:%s" % ev.replace("k", "", 1)[:24],
                                  "janet trace differs from the protocol model at event %d: janet %r, model %r" % (k, ("(" + ge[k])[:160] if k < len(ge) else "<end>", ("(" + we[k])[:160] if k < len(we) else "<end>"),
                                  {"program.janet": PRELUDE + text, "expected.txt": want, "observed.txt": got[pid]})
                else:
                    ctx.sample({"events": want.count("(") - 1, "levels_crossed": d2, "trace": want[:160]}, cap=4)

    core.pmap(do_batch, range(nb))

    # phase 2: transparent relays built on (propagate value child) for resumable signals
    core.pmap(lambda i: relay_case(ctx, exe, i), range(60 if quick else 2000))
