"""C08 — threads and thread channels deliver every message exactly once, race-free.

Workload: producer/consumer topologies (1-8 OS threads, 1-4 thread channels, capacities
0-8, plain takes, selects across channels, receivers that time out and retry) with
message ids (sender, seq) and payloads that are a function of the id. Every thread keeps
its own event list and writes it to its own file at the end (no shared monitor state).
Offline monitor: exactly-once by id, payload = f(id), per sender/receiver/channel order,
conservation incl. items drained at the end, ev/thread returns only after the body's
last event, live threaded abstracts return to the baseline. The same workloads run on
the ThreadSanitizer build (seeded schedule perturbation, hook H2) and on ASan+UBSan."""
import os
import random
import re

from vf import build, core

LEVEL = "exploration"

SCRIPT = r'''
(def [nsend nrecv nchan cap nmsg rmode seed] (map scan-number (slice (dyn :args) 1 8)))
(def dir (get (dyn :args) 8))
(defn payload [s q shape]
  (case shape
    0 (+ (* s 100000) q)
    1 (string "p-" s "-" q "-" (string/repeat "x" (% (+ s q) 40)))
    2 [s q @{:k (* s q) :t [s [q]]} (buffer "b" s)]
    3 {:s s :q q :i (int/s64 (+ (* s 1000) q))}
    # shared and cyclic structure: one array referenced twice, and a table that contains itself
    5 (let [a @[s q]] [a a @{:alias a}])
    6 (let [t @{:s s :q q}] (put t :self t) t)
    @[s q]))
(defn shape-of [s q] (% (+ s (* 3 q)) 7))
(defn payload-ok [p s q shape]
  (case shape
    5 (and (tuple? p) (= 3 (length p)) (deep= (p 0) @[s q]) (= (p 0) (p 1)) (= (p 0) ((p 2) :alias)))
    6 (and (table? p) (= (p :s) s) (= (p :q) q) (= (p :self) p))
    (deep= p (payload s q shape))))
(defn now [] (os/clock :monotonic))
(def chans (seq [i :range [0 nchan]] (ev/thread-chan cap)))
(def done (ev/thread-chan 64))
(def baseline ((verif/stats) :live-threaded))

(defn write-log [name events]
  (def f (file/open (string dir "/log-" name ".txt") :w))
  (each e events (file/write f (string/join (map string e) " ") "\n"))
  (file/close f))

(defn sender [s]
  (fn [&]
    (def ev @[])
    (def c (chans (% s nchan)))
    (for q 0 nmsg
      (array/push ev ["S" s q (% s nchan) (now)])
      (ev/give c [:msg s q (payload s q (shape-of s q))])
      (array/push ev ["s" s q (% s nchan) (now)]))
    (write-log (string "sender-" s) ev)
    (ev/give done [:sender s])))

(defn check-msg [ev who ci m]
  (def [_ s q p] m)
  (array/push ev ["R" who s q ci (if (payload-ok p s q (shape-of s q)) "ok" "BAD") (now)]))

(defn receiver [r]
  (fn [&]
    (def ev @[])
    (var running true)
    (while running
      (def got
        (case rmode
          0 (let [ci (% r nchan)] [ci (ev/take (chans ci))])
          1 (let [[_ c v] (ev/select ;chans)] [(index-of c chans) v])
          2 (let [ci (% r nchan)
                  v (try (ev/with-deadline 0.003 (ev/take (chans ci))) ([e] :timeout))] [ci v])
          3 (let [res (try (ev/with-deadline 0.004 (ev/select ;chans)) ([e] :timeout))]
            (if (= res :timeout) [0 :timeout] [(index-of (res 1) chans) (res 2)]))
          # mode 4: receivers of different kinds on the same channel: even ones take with a short deadline (they leave
          # stale registrations), odd ones wait in ev/select
          (if (even? r)
            (let [v (try (ev/with-deadline 0.002 (ev/take (chans 0))) ([e] :timeout))] [0 v])
            (let [res (ev/select (chans 0))] [0 (if (and (tuple? res) (= (length res) 3) (= (res 0) :take)) (res 2) [:wrong-select-result res])]))))
      (def [ci m] got)
      (cond
        (= m :timeout) (array/push ev ["T" r ci (now)])
        (= m :stop) (set running false)
        (nil? m) (set running false)
        (and (tuple? m) (= (length m) 4) (= (m 0) :msg)) (check-msg ev r ci m)
        (array/push ev ["W" r ci (string/format "%.60q" m) (now)])))
    (write-log (string "receiver-" r) ev)
    (ev/give done [:receiver r])))

(def t0 (now))
# every worker thread is awaited by its own fiber, so that the process only exits after all threads have ended
(def joined (ev/chan 64))
(for r 0 nrecv (ev/spawn (ev/thread (receiver r)) (ev/give joined [:r r])))
(for s 0 nsend (ev/spawn (ev/thread (sender s)) (ev/give joined [:s s])))
(def mainev @[])
# awaited thread: must return only after its body's last event
(def tail-chan (ev/thread-chan 2))
(def ret (ev/thread (fn [&] (os/sleep 0.002) (ev/give tail-chan (os/clock :monotonic)) :thread-result)))
(array/push mainev ["A" (ev/take tail-chan) (now) (string ret)])
(var senders-left nsend)
(while (> senders-left 0) (def [k _] (ev/take done)) (when (= k :sender) (-- senders-left)))
# stop receivers: one :stop per receiver, on the channel it listens to (select receivers listen to all: use channel 0)
(for r 0 nrecv (ev/give (chans (if (or (= rmode 0) (= rmode 2)) (% r nchan) 0)) :stop))
(var recv-left nrecv)
(while (> recv-left 0) (def [k _] (ev/take done)) (when (= k :receiver) (-- recv-left)))
# drain what is still queued
(for ci 0 nchan
  (while (> (ev/count (chans ci)) 0)
    (def m (ev/take (chans ci)))
    (unless (= m :stop) (check-msg mainev "main" ci m))))
(def st (verif/stats))
(array/push mainev ["X" (st :post-events) (st :selfpipe-callbacks) (st :perturb-hits)])
(write-log "main" mainev)
(repeat (+ nsend nrecv) (ev/take joined))
(print "WORKLOAD-DONE " (- (now) t0))
(flush)
(os/exit 0)
'''

CLOSE = r'''
# a worker whose select was satisfied through another channel is later parked in an unrelated wait; closing the channel it abandoned
# (from another thread) must not touch that wait
(def rounds 24)
(def b (ev/thread-chan 1)) (def c (ev/thread-chan 1)) (def ctl (ev/thread-chan 4)) (def res (ev/thread-chan 64))
(defn worker [&]
  (for i 0 rounds
    (def a (ev/take ctl))
    (def r1 (ev/select a b))
    (ev/give res [:selected i])          # the closer waits for this: the select must be over before the channel is closed
    (def r2 (case (% i 3)
              0 (ev/take c)
              1 (let [r (ev/select c)] (if (and (tuple? r) (= (r 0) :take)) (r 2) [:bad-select r]))
              (do (def t0 (os/clock :monotonic)) (def s (ev/sleep 0.03)) (def el (- (os/clock :monotonic) t0))
                (if (and (nil? s) (>= el 0.03)) (ev/take c) [:bad-sleep s el]))))
    (ev/give res [i (and (tuple? r1) (= (r1 0) :take) (= (r1 2) [:wake i])) r2]))
  :done)
(def joined (ev/chan 1))
(ev/spawn (ev/thread worker) (ev/give joined 1))
(for i 0 rounds
  (def a (ev/thread-chan))
  (ev/give ctl a)
  (ev/give b [:wake i])
  (ev/take res)
  (ev/sleep 0.004)
  (ev/chan-close a)
  (ev/sleep 0.004)
  (ev/give c [:payload i])
  (def [k ok1 r2] (ev/take res))
  (print "C " k " " ok1 " " (string/format "%j" r2)))
(ev/take joined)
(print "CLOSE-DONE")
(os/exit 0)
'''

REQUEUE = r'''
# single thread, thread channels: a take abandoned by a deadline leaves a registration; values handed to it must be re-queued, in order,
# whatever the ring position and size of the item queue
(var bad 0)
(each cap [1 2 3 4 8]
  (for pre 0 7
    (for k 1 (+ cap 1)
      (def c (ev/thread-chan cap))
      (repeat pre (ev/give c :warm) (ev/take c))
      (def r0 (try (ev/with-deadline 0.002 (ev/take c)) ([e] :timeout)))
      (for j 0 k (ev/give c [:item j]))
      (ev/sleep 0.002)
      (def got @[])
      (for j 0 (+ k 1) (array/push got (try (ev/with-deadline 0.01 (ev/take c)) ([e] :timeout))))
      (def want (array/concat (seq [j :range [0 k]] [:item j]) @[:timeout]))
      (unless (and (= r0 :timeout) (deep= got want))
        (++ bad)
        (print "R cap=" cap " pre=" pre " k=" k " first=" r0 " got=" (string/format "%j" got))))))
(print "REQUEUE-DONE " bad)
(os/exit 0)
'''

LIFETIME = r'''
# shared objects are released after the last reference is dropped and every thread has collected
(def baseline ((verif/stats) :live-threaded))
(def to (ev/thread-chan 4)) (def back (ev/thread-chan 4))
(ev/thread (fn [&] (forever (def m (ev/take to)) (when (= m :stop) (break)) (ev/give back m) (gccollect))) nil :n)
(for i 0 200
  (def fresh (ev/thread-chan 2))
  (def lk (ev/lock))
  (ev/give fresh (string "in-flight-" i))
  (ev/give to [fresh lk (ev/rwlock)])
  (def [same lk2 rw] (ev/take back))
  (ev/acquire-lock lk2) (ev/release-lock lk2)
  (ev/acquire-rlock rw) (ev/release-rlock rw)
  (unless (= (ev/take same) (string "in-flight-" i)) (print "BAD-ROUNDTRIP " i)))
(ev/give to :stop)
(ev/sleep 0.05)
(gccollect) (gccollect)
(print "LIVE " baseline " " ((verif/stats) :live-threaded))
(flush)
(os/exit 0)
'''


def parse_logs(d):
    events = []
    for f in os.listdir(d):
        if f.startswith("log-"):
            who = f[4:-4]
            for line in open(os.path.join(d, f)):
                p = line.split()
                if p:
                    events.append((who, p))
    return events


def judge(ctx, params, d, res, files):
    nsend, nrecv, nchan, cap, nmsg, rmode = params
    out = res.out.decode(errors="replace")
    tag = "mode%d" % rmode
    if "WORKLOAD-DONE" not in out:
        if res.timed_out:
            ctx.violation("workload-hang:" + tag, "topology %s did not finish: a give or take never completed (lost wake-up or lost message); stderr %s" % (params, res.err[-300:]), files)
        else:
            if b"failed to write event to self-pipe" in res.err:
                tag = "selfpipe-full:" + tag
            ctx.violation("workload-aborted:" + tag, "rc=%s sig=%s stderr=%s" % (res.rc, res.sig, res.err.decode(errors="replace")[-300:]), files)
        return
    evs = parse_logs(d)
    sent = {}
    recv = {}
    order = {}
    bad = 0
    for who, p in evs:
        if p[0] == "s":
            sent[(int(p[1]), int(p[2]))] = float(p[4])
        elif p[0] == "R":
            key = (int(p[2]), int(p[3]))
            recv.setdefault(key, []).append((p[1], int(p[4]), p[5], float(p[6])))
            if p[5] != "ok":
                bad += 1
        elif p[0] == "W":
            ctx.violation("wrong-result-shape:" + tag, "receiver %s got %s instead of a message: the result of a plain take / select has the shape of the other kind of wait" % (p[1], " ".join(p[3:-1])[:120]), files)
        elif p[0] == "A":
            t_end, t_ret = float(p[1]), float(p[2])
            if t_ret < t_end:
                ctx.violation("thread-returned-before-body-finished", "ev/thread returned at %r but the thread body's last event is at %r" % (t_ret, t_end), files)
        elif p[0] == "X":
            ctx.count("cross_thread_posts", int(float(p[1])))
            ctx.count("selfpipe_callbacks", int(float(p[2])))
            ctx.count("perturbations", int(float(p[3])))
    expected = set((s, q) for s in range(nsend) for q in range(nmsg))
    missing = expected - set(recv)
    if missing:
        ctx.violation("message-lost:" + tag, "%d of %d messages were never received (e.g. %s); topology %s" % (len(missing), len(expected), sorted(missing)[:5], params), files)
    dup = [k for k, v in recv.items() if len(v) > 1]
    if dup:
        ctx.violation("message-duplicated:" + tag, "messages received more than once: %s" % dup[:5], files)
    if bad:
        ctx.violation("payload-corrupted:" + tag, "%d received payloads differ from the function of their id" % bad, files)
    if set(recv) - expected:
        ctx.violation("message-never-sent:" + tag, "%s" % sorted(set(recv) - expected)[:5], files)
    # per (sender, receiver, channel): increasing seq in receive-time order
    per = {}
    for (s, q), lst in recv.items():
        for who, ci, ok, t in lst:
            per.setdefault((s, who, ci), []).append((t, q))
    for k, lst in per.items():
        lst.sort()
        qs = [q for _, q in lst]
        if qs != sorted(qs):
            ctx.violation("order-broken:" + tag, "sender %s -> receiver %s on channel %s received in order %s" % (k[0], k[1], k[2], qs[:20]), files)
            break
    ctx.count("messages", len(recv))
    receivers = set(w for v in recv.values() for (w, _, _, _) in v)
    sig = hash(tuple(sorted((t, k) for k, v in recv.items() for (_, _, _, t) in v))) & 0xFFFFFF
    return len(receivers), sig


def run(ctx):
    tsan = build.janet("tsan")
    asan = build.janet("asan")
    quick = ctx.tier == "quick"
    ntopo = 40 if quick else 900
    ctx.rule = ("topology (senders 1-4, receivers 1-4, channels 1-4, capacity 0-8, messages 20-200 per sender, receive mode plain / select / timeout-retry / "
                "select with timeout, payload shapes number/string/nested/struct with s64/array) x build (tsan with 3 perturbation seeds, asan) ; non-trivial = "
                ">= 2 receivers actually received and cross-thread posts occurred (hook counters); interleaving signature = hash of receive-time order")
    ctx.assumptions = ["per-thread logs written to per-thread files; timestamps from CLOCK_MONOTONIC (system-wide)", "TSan sees only executed interleavings and intercepted synchronisation",
                       "ev/deadline's interrupt thread is not used (outside this property)"]
    d0 = core.case_dir()
    path = os.path.join(d0, "workload.janet")
    open(path, "w").write(SCRIPT)
    jobs = []
    for i in range(ntopo):
        rng = random.Random(ctx.sub_seed("topo", i))
        params = [rng.choice([1, 2, 3, 4]), rng.choice([1, 2, 3, 4]), rng.choice([1, 1, 2, 3, 4]), rng.choice([0, 0, 1, 2, 8]), rng.choice([20, 50, 120, 200]), rng.choice([0, 0, 0, 0, 1, 1, 2, 3, 4, 4])]
        if params[5] in (0, 2):
            params[1] = max(params[1], params[2])
        if params[5] == 4:
            params[2] = 1
            params[1] = max(params[1], 2)      # plain receivers listen to one channel each: every channel needs one
        params = tuple(params)
        for flavour, exe, pseed in [("tsan", tsan, 3 * i + 1), ("tsan", tsan, 3 * i + 2), ("asan", asan, 3 * i + 3)] + ([("tsan", tsan, 3 * i + 7)] if not quick else []):
            jobs.append((params, flavour, exe, pseed))
    sigs = set()
    tsan_reports = {}

    def one(j):
        params, flavour, exe, pseed = jobs[j]
        d = core.case_dir()
        env = {"JANET_VERIF_PERTURB": "%d:%d" % (pseed, 150 if pseed % 2 else 30)}
        res = core.run([exe, path] + [str(x) for x in params] + [str(pseed), d], env=env, timeout=45, cpu=600, cwd=d)
        files = {"workload.janet": SCRIPT, "params.txt": " ".join(str(x) for x in params) + " perturb=" + env["JANET_VERIF_PERTURB"] + " build=" + flavour,
                 "stdout.txt": res.out[-2000:], "stderr.txt": res.err[-3000:]}
        ctx.evals()
        for kind, sig, text in res.san:
            if kind == "tsan":
                # dedupe by stack pair; every distinct one is a violation
                ctx.violation("race:" + sig, "ThreadSanitizer report in topology %s: %s" % (params, text[:600]), dict(files, **{"tsan.txt": text}))
            elif "ABRT" in sig and "janet_ev_post_event" in text:
                ctx.violation("workload-aborted:selfpipe-full:%s" % flavour, "janet aborted in janet_ev_post_event (self-pipe of the receiving thread full) in topology %s" % (params,), dict(files, **{"sanitizer.txt": text}))
            else:
                ctx.violation("%s:%s" % (flavour, sig), "sanitizer report in topology %s: %s" % (params, text[:400]), dict(files, **{"sanitizer.txt": text}))
        r = judge(ctx, params, d, res, files)
        core.discard(res)
        if r:
            nrecv_active, sig = r
            sigs.add(sig)
            if nrecv_active >= 2:
                ctx.nontriv((params, flavour, pseed))
        ctx.count("runs:" + flavour)
        ctx.sample({"topology": dict(zip(["senders", "receivers", "channels", "capacity", "messages", "recv_mode"], params)), "build": flavour, "perturb": env["JANET_VERIF_PERTURB"]}, cap=4)

    core.pmap(one, range(len(jobs)), jobs=8)
    ctx.extra["distinct_interleavings"] = len(sigs)

    # closing a thread channel on which another thread has only an abandoned registration
    def close_run(k):
        flavour, exe, pseed = [("asan", asan, 11), ("tsan", tsan, 12), ("tsan", tsan, 13), ("plain", build.janet("plain"), 14)][k]
        d = core.case_dir()
        p3 = os.path.join(d, "close.janet")
        open(p3, "w").write(CLOSE)
        res = core.run([exe, p3], timeout=120, cwd=d, env={"JANET_VERIF_PERTURB": "%d:120" % pseed})
        core.discard(res)
        ctx.evals()
        files = {"close.janet": CLOSE, "stdout.txt": res.out[-2000:], "stderr.txt": res.err[-2000:]}
        for kind, sig, text in res.san:
            ctx.violation("close:%s" % sig, text[:500], dict(files, **{"sanitizer.txt": text}))
        out = res.out.decode(errors="replace")
        if "CLOSE-DONE" not in out:
            if res.timed_out:
                ctx.violation("close:hang", "close scenario did not finish: last lines %r" % out[-200:], files)
            elif not res.san:
                ctx.violation("close:script-failed", "rc=%s sig=%s %s" % (res.rc, res.sig, res.err.decode(errors="replace")[-300:]), files)
            return
        for line in out.splitlines():
            if line.startswith("C "):
                _, i, ok1, r2 = line.split(" ", 3)
                ctx.evals()
                ctx.count("close_rounds")
                ctx.nontriv(("close", flavour, i))
                if ok1 != "true" or r2 != "(:payload %s)" % i:
                    ctx.violation("close:wrong-result", "round %s: select result ok=%s, the later unrelated wait returned %s instead of (:payload %s)" % (i, ok1, r2, i), files)
    core.pmap(close_run, range(4), jobs=4)

    # values handed to an abandoned registration are re-queued in order, for every ring position and size
    def requeue_run(k):
        flavour, exe = [("asan", asan), ("tsan", tsan), ("plain", build.janet("plain"))][k]
        d = core.case_dir()
        p4 = os.path.join(d, "requeue.janet")
        open(p4, "w").write(REQUEUE)
        res = core.run([exe, p4], timeout=300, cwd=d)
        core.discard(res)
        ctx.evals()
        files = {"requeue.janet": REQUEUE, "stdout.txt": res.out[-2000:], "stderr.txt": res.err[-2000:]}
        for kind, sig, text in res.san:
            ctx.violation("requeue:%s" % sig, text[:500], dict(files, **{"sanitizer.txt": text}))
        out = res.out.decode(errors="replace")
        m = re.search(r"REQUEUE-DONE (\d+)", out)
        if not m:
            if not res.san:
                ctx.violation("requeue:script-failed", "rc=%s sig=%s timed_out=%s %s" % (res.rc, res.sig, res.timed_out, res.err.decode(errors="replace")[-300:]), files)
            return
        ctx.count("requeue_cases", 5 * 7 * 4)
        ctx.nontriv(("requeue", flavour))
        if int(m.group(1)) > 0:
            first = [l for l in out.splitlines() if l.startswith("R ")][:1]
            ctx.violation("requeue:lost-or-reordered", "%s of the (capacity, warm-up, gives) combinations lost or reordered values handed to an abandoned take: %s" % (m.group(1), first), files)
    core.pmap(requeue_run, range(3), jobs=3)

    # lifetime of shared abstracts
    for flavour, exe in (("asan", asan), ("tsan", tsan)):
        d = core.case_dir()
        p2 = os.path.join(d, "lifetime.janet")
        open(p2, "w").write(LIFETIME)
        res = core.run([exe, p2], timeout=300, cwd=d)
        core.discard(res)
        ctx.evals()
        files = {"lifetime.janet": LIFETIME, "stdout.txt": res.out[-1000:], "stderr.txt": res.err[-2000:]}
        for kind, sig, text in res.san:
            ctx.violation("lifetime:%s" % sig, text[:500], dict(files, **{"sanitizer.txt": text}))
        out = res.out.decode(errors="replace")
        m = re.search(r"LIVE (\d+) (\d+)", out)
        if "BAD-ROUNDTRIP" in out:
            ctx.violation("shared-object-roundtrip", out[:200], files)
        if not m:
            ctx.violation("lifetime-script-failed", "rc=%s %s" % (res.rc, res.err.decode(errors="replace")[-300:]), files)
        elif int(m.group(2)) > int(m.group(1)) + 4:
            ctx.violation("shared-abstract-leak", "live threaded abstracts: %s before, %s after 200 round trips with all references dropped" % (m.group(1), m.group(2)), files)
