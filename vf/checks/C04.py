"""C04 — tables, structs, arrays and buffers behave as maps and sequences.

Monitor: random operation histories are executed by janet (ASan+UBSan build) one
step at a time under `protect`; every observed result (value or "error") and,
periodically, the full observable state are compared with the replay of the same
history on reference containers (dict / list / bytearray) written here."""
import math
import os
import random

from vf import build, core
from vf.canon import Kw, Tup, Struct, Table, Buf, canon, emit, jbytes

LEVEL = "exploration"

PRELUDE = open(os.path.join(core.VERIF, "janet", "canon.janet")).read() + r'''
(defn step [id f]
  (def r (protect (f)))
  (if (r 0) (print id " ok " (canon (r 1))) (print id " err"))
  (flush))
(defn sorted-canon [xs] (sort (map canon xs)))
(defn iter-keys [t]
  (def seen @[])
  (var k (next t))
  (var guard 0)
  (while (and (not= nil k) (< guard 100000))
    (array/push seen k)
    (++ guard)
    (set k (next t k)))
  seen)
(defn full-table [t universe]
  (def ks (iter-keys t))
  [(length t) (sorted-canon ks) (sorted-canon (keys t)) (sorted-canon (values t))
   (sort (map (fn [[k v]] (string (canon k) "=" (canon v))) (pairs t)))
   (map (fn [k] (canon (get t k))) universe)
   (map (fn [k] (canon (in t k :dflt))) universe)
   (map (fn [k] (canon (table/rawget t k))) universe)
   (verif/table-check t)])
'''


class Raise(Exception):
    """The reference says this operation must raise."""


class Skip(Exception):
    """Outcome not specified; the step is not generated/judged."""


def ck(v):
    if isinstance(v, float) and v == 0:
        return "0"
    if isinstance(v, Tup):
        return ("[" if v.bracket else "(") + " ".join(ck(e) for e in v.items) + ("]" if v.bracket else ")")
    return canon(v)


def is_nan(v):
    return isinstance(v, float) and v != v


# ------------------------------------------------------------------ tables

class MTable:
    def __init__(self):
        self.d = {}      # content key -> (key, value)
        self.proto = None

    def put(self, k, v):
        if k is None or is_nan(k):
            return
        if v is None:
            self.d.pop(ck(k), None)
        else:
            self.d[ck(k)] = (k, v)

    def rawget(self, k):
        if k is None or is_nan(k):
            return None
        e = self.d.get(ck(k))
        return e[1] if e else None

    def get(self, k, depth=0):
        t = self
        n = 0
        while t is not None and n < 200:
            v = t.rawget(k)
            if v is not None:
                return v
            t = t.proto
            n += 1
        return None

    def desc(self):
        return Table([e for e in self.d.values()], self.proto.desc() if self.proto else None)

    def sdesc(self):
        return Struct([e for e in self.d.values()])

    def clone(self):
        t = MTable()
        t.d = dict(self.d)
        t.proto = self.proto
        return t

    def chain_len(self):
        n, t = 0, self
        while t is not None:
            n += 1
            t = t.proto
        return n


KEY_UNIVERSE = ([i for i in range(0, 24)] + [b"k%d" % i for i in range(8)] + [Kw("k%d" % i) for i in range(8)]
                + [Tup([1, 2]), Tup([1, 2], True), Tup([]), 0.5, -1, 2 ** 31, b""])
VALS = [1, 2, 3, b"v", Kw("v"), Tup([7]), 0, False, True, b""]


def gen_key(rng):
    c = rng.random()
    if c < 0.9:
        return rng.choice(KEY_UNIVERSE)
    return rng.choice([None, float("nan"), -0.0, 0])


def gen_val(rng):
    return None if rng.random() < 0.22 else rng.choice(VALS)


# ------------------------------------------------------------------ index helpers (documented range rules)

def slice_range(n, start, end):
    """janet_getslice: negative = from end + 1; out of [-(n+1), n] raises."""
    def fix(i, what):
        if i is None:
            return None
        if not isinstance(i, int) or isinstance(i, bool):
            raise Raise()
        if i < 0:
            i += n + 1
        if i < 0 or i > n:
            raise Raise()
        return i
    s = fix(start, "start")
    e = fix(end, "end")
    s = 0 if s is None else s
    e = n if e is None else e
    if e < s:
        e = s
    return s, e


def int_index(i):
    return isinstance(i, int) and not isinstance(i, bool) and -2 ** 31 <= i < 2 ** 31


IDX_ODD = [1.5, Kw("k"), None, 2 ** 31 - 1, -2 ** 31, 2 ** 31, 10 ** 12]


def gen_index(rng, n, odd=0.15):
    if rng.random() < odd:
        return rng.choice(IDX_ODD)
    return rng.choice([0, 1, n - 1, n, n + 1, n + 2, -1, -2, -n, -n - 1, -n - 2, rng.randrange(-n - 2, n + 3)])


# ------------------------------------------------------------------ the history generator/model

class History:
    def __init__(self, rng, kind):
        self.rng = rng
        self.kind = kind
        self.lines = []
        self.exp = {}
        self.n = 0
        self.nontrivial = False
        self.tables = [MTable() for _ in range(3)]
        self.arrays = [[] for _ in range(2)]
        self.bufs = [bytearray() for _ in range(2)]
        self.cap_crossed = 0

    def add(self, expr, fn, tag):
        """expr: janet expression; fn: thunk computing expected description (or raising Raise/Skip)."""
        sid = "s%d" % self.n
        try:
            want = "ok " + canon(fn())
        except Raise:
            want = "err"
        except Skip:
            return
        self.n += 1
        self.lines.append('(step "%s" (fn [] %s))' % (sid, expr))
        self.exp[sid] = (want, expr, tag)

    # ---- tables
    def table_step(self):
        r = self.rng
        i = r.randrange(3)
        t = self.tables[i]
        T = "T%d" % i
        op = r.choice(["put"] * 10 + ["get", "get", "in", "getd", "ind", "rawget", "length", "clear", "clone", "setproto", "getproto",
                                      "tostruct", "mergeinto", "merge", "flatten", "putburst", "removeburst", "structtable", "tablenew",
                                      "structbuild", "structbuild", "structperm", "structperm"])
        if op == "put":
            k, v = gen_key(r), gen_val(r)
            def f():
                t.put(k, v)
                return t.desc()
            self.add("(put %s %s %s)" % (T, emit(k), emit(v)), f, "table/put")
        elif op == "putburst":
            # many distinct keys: crosses growth and rehash thresholds
            base = r.randrange(100, 100000)
            m = r.choice([5, 9, 17, 33, 70])
            def f():
                for j in range(m):
                    t.put(base + j, j + 1)
                return len(t.d)
            self.nontrivial = True
            self.add("(do (for j 0 %d (put %s (+ %d j) (+ j 1))) (length %s))" % (m, T, base, T), f, "table/grow")
        elif op == "removeburst":
            keys = [e[0] for e in t.d.values()]
            r.shuffle(keys)
            keys = keys[:r.choice([1, 3, 8, 20, 60])]
            def f():
                for k in keys:
                    t.put(k, None)
                return len(t.d)
            if keys:
                self.nontrivial = True
                self.add("(do (each k [%s] (put %s k nil)) (length %s))" % (" ".join(emit(k) for k in keys), T, T), f, "table/tombstones")
        elif op in ("get", "in", "getd", "ind", "rawget"):
            k = gen_key(r)
            if op == "rawget":
                self.add("(table/rawget %s %s)" % (T, emit(k)), lambda: t.rawget(k), "table/rawget")
            elif op in ("get", "in"):
                self.add("(%s %s %s)" % (op, T, emit(k)), lambda: t.get(k), "table/lookup")
            else:
                def f():
                    v = t.get(k)
                    return Kw("dflt") if v is None else v
                self.add("(%s %s %s :dflt)" % (op[:-1], T, emit(k)), f, "table/lookup-default")
        elif op == "length":
            self.add("(length %s)" % T, lambda: len(t.d), "table/length")
        elif op == "clear":
            def f():
                t.d.clear()
                return t.desc()
            self.add("(table/clear %s)" % T, f, "table/clear")
        elif op == "clone":
            j = r.randrange(3)
            def f():
                self.tables[j] = t.clone()
                return self.tables[j].desc()
            self.add("(set T%d (table/clone %s))" % (j, T), f, "table/clone")
        elif op == "setproto":
            j = r.choice([None, 0, 1, 2])
            p = self.tables[j] if j is not None else None
            # never create a cycle in the prototype chain
            q = p
            while q is not None:
                if q is t:
                    return
                q = q.proto
            def f():
                t.proto = p
                return t.desc()
            self.add("(table/setproto %s %s)" % (T, "T%d" % j if j is not None else "nil"), f, "table/setproto")
        elif op == "getproto":
            self.add("(table/getproto %s)" % T, lambda: t.proto.desc() if t.proto else None, "table/getproto")
        elif op == "structbuild":
            # struct constructor as a finite map: later pairs win, pairs with a nil / NaN key or a nil value are ignored
            pairs = [(r.randrange(0, 64) if r.random() < 0.7 else gen_key(r), gen_val(r)) for _ in range(r.randrange(0, 9))]
            def f():
                m = MTable()
                for k, v in pairs:
                    if v is not None:
                        m.put(k, v)
                return m.sdesc()
            self.add("(struct %s)" % " ".join("%s %s" % (emit(k), emit(v)) for k, v in pairs), f, "struct")
        elif op == "structperm":
            # the same distinct pairs in two orders: equal, same hash, same length
            ks = r.sample(range(0, 64), r.randrange(2, 8))
            pairs = [(k, r.choice(VALS)) for k in ks]
            perm = pairs[:]
            r.shuffle(perm)
            def f():
                return Tup([True, True, len(pairs), len(pairs), True])
            a = " ".join("%s %s" % (emit(k), emit(v)) for k, v in pairs)
            b = " ".join("%s %s" % (emit(k), emit(v)) for k, v in perm)
            self.add("(let [a (struct %s) b (struct %s)] [(= a b) (= (hash a) (hash b)) (length a) (length b) (= 0 (compare a b))])" % (a, b), f, "struct-order")
        elif op == "tostruct":
            self.add("(table/to-struct %s)" % T, lambda: t.sdesc(), "table/to-struct")
        elif op == "structtable":
            j = r.randrange(3)
            def f():
                n = MTable()
                n.d = dict(t.d)
                self.tables[j] = n
                return n.desc()
            self.add("(set T%d (struct/to-table (table/to-struct %s)))" % (j, T), f, "struct/to-table")
        elif op == "tablenew":
            j = r.randrange(3)
            capn = r.choice([0, 1, 3, 8, 100])
            def f():
                self.tables[j] = MTable()
                return self.tables[j].desc()
            self.add("(set T%d (table/new %d))" % (j, capn), f, "table/new")
        elif op in ("mergeinto", "merge"):
            j = r.randrange(3)
            o = self.tables[j]
            if op == "mergeinto":
                def f():
                    for k, v in list(o.d.values()):
                        t.put(k, v)
                    return t.desc()
                self.add("(merge-into %s T%d)" % (T, j), f, "merge-into")
            else:
                def f():
                    n = MTable()
                    for k, v in list(t.d.values()) + list(o.d.values()):
                        n.put(k, v)
                    return n.desc()
                self.add("(merge %s T%d)" % (T, j), f, "merge")
        elif op == "flatten":
            def f():
                n = MTable()
                chain = []
                q = t
                while q is not None:
                    chain.append(q)
                    q = q.proto
                for q in reversed(chain):
                    for k, v in q.d.values():
                        n.put(k, v)
                return n.desc()
            self.add("(table/proto-flatten %s)" % T, f, "table/proto-flatten")

    def table_full(self):
        uni = KEY_UNIVERSE + [None, float("nan")]
        for i in range(3):
            t = self.tables[i]
            def f(t=t):
                ks = sorted(canon(e[0]) for e in t.d.values())
                vs = sorted(canon(e[1]) for e in t.d.values())
                ps = sorted(canon(e[0]) + "=" + canon(e[1]) for e in t.d.values())
                gets = [canon(t.get(k)) for k in uni]
                ins = [canon(t.get(k) if t.get(k) is not None else Kw("dflt")) for k in uni]
                raws = [canon(t.rawget(k)) for k in uni]
                return Tup([len(t.d), [x.encode() for x in ks], [x.encode() for x in ks], [x.encode() for x in vs],
                            [x.encode() for x in ps], [x.encode() for x in gets], [x.encode() for x in ins],
                            [x.encode() for x in raws], None])
            self.add("(full-table T%d [%s])" % (i, " ".join(emit(k) for k in uni)), f, "table/full-state")

    # ---- arrays
    def array_step(self):
        r = self.rng
        i = r.randrange(2)
        a = self.arrays[i]
        A = "A%d" % i
        n = len(a)
        op = r.choice(["push", "push", "push", "pop", "peek", "insert", "insert", "remove", "remove", "concat", "slice", "slice", "fill", "ensure", "trim",
                       "newfilled", "clear", "put", "put", "get", "in", "length", "pushburst", "concatself", "tslice"])
        val = lambda: r.choice(VALS + [None])
        if op == "push":
            xs = [val() for _ in range(r.choice([1, 1, 2, 3]))]
            def f():
                a.extend(xs)
                return list(a)
            self.add("(array/push %s %s)" % (A, " ".join(emit(x) for x in xs)), f, "array/push")
        elif op == "pushburst":
            m = r.choice([10, 40, 130])
            def f():
                a.extend(range(m))
                return len(a)
            self.nontrivial = True
            self.add("(do (for j 0 %d (array/push %s j)) (length %s))" % (m, A, A), f, "array/grow")
        elif op == "pop":
            self.add("(array/pop %s)" % A, lambda: a.pop() if a else None, "array/pop")
        elif op == "peek":
            self.add("(array/peek %s)" % A, lambda: a[-1] if a else None, "array/peek")
        elif op == "insert":
            at = gen_index(r, n)
            xs = [val() for _ in range(r.choice([1, 1, 2]))]
            def f():
                if not int_index(at):
                    raise Raise()
                p = at + n + 1 if at < 0 else at
                if p < 0 or p > n:
                    raise Raise()
                a[p:p] = xs
                return list(a)
            self.add("(array/insert %s %s %s)" % (A, emit(at), " ".join(emit(x) for x in xs)), f, "array/insert")
        elif op == "remove":
            at = gen_index(r, n)
            cnt = r.choice([None, None, 0, 1, 2, n, n + 5, -1, 2 ** 31 - 1, 1.5])
            def f():
                if not int_index(at):
                    raise Raise()
                if cnt is not None and (not int_index(cnt) or cnt < 0):
                    raise Raise()
                p = at + n if at < 0 else at
                if p < 0 or p > n:
                    raise Raise()
                c = 1 if cnt is None else cnt
                del a[p:min(n, p + c)]
                return list(a)
            self.add("(array/remove %s %s%s)" % (A, emit(at), "" if cnt is None else " " + emit(cnt)), f, "array/remove")
        elif op == "concat":
            j = r.randrange(2)
            o = self.arrays[j]
            extra = val()
            def f():
                add = list(o) + (list(extra.items) if isinstance(extra, Tup) else [extra])
                a.extend(add)
                return list(a)
            if j != i:
                self.add("(array/concat %s A%d %s)" % (A, j, emit(extra)), f, "array/concat")
        elif op == "concatself":
            def f():
                a.extend(list(a))
                return list(a)
            if n < 400:
                self.add("(array/concat %s %s)" % (A, A), f, "array/concat-self")
        elif op in ("slice", "tslice"):
            s = gen_index(r, n) if r.random() < 0.8 else None
            e = gen_index(r, n) if r.random() < 0.6 else None
            if s is None and e is not None:
                s = 0
            fnname = "array/slice" if op == "slice" else "tuple/slice"
            def f():
                lo, hi = slice_range(n, s, e)
                return list(a[lo:hi]) if op == "slice" else Tup(a[lo:hi])
            args = "" if s is None else (" " + emit(s) + ("" if e is None else " " + emit(e)))
            if s is None or not (isinstance(s, float) or isinstance(s, Kw)):
                self.add("(%s %s%s)" % (fnname, A, args), f, fnname)
        elif op == "fill":
            v = val()
            def f():
                a[:] = [v] * n
                return list(a)
            self.add("(array/fill %s %s)" % (A, emit(v)), f, "array/fill")
        elif op == "ensure":
            c = r.choice([1, 2, n + 1, 100, 1000])
            self.add("(array/ensure %s %d 2)" % (A, c), lambda: list(a), "array/ensure")
        elif op == "trim":
            self.add("(array/trim %s)" % A, lambda: list(a), "array/trim")
        elif op == "newfilled":
            m = r.choice([0, 1, 5, 33])
            v = val()
            def f():
                self.arrays[i] = [v] * m
                return list(self.arrays[i])
            self.add("(set %s (array/new-filled %d %s))" % (A, m, emit(v)), f, "array/new-filled")
        elif op == "clear":
            def f():
                a.clear()
                return list(a)
            self.add("(array/clear %s)" % A, f, "array/clear")
        elif op == "put":
            at = r.choice([0, n - 1, n, n + 1, n + 3, -1, 1.5, n // 2, 2 ** 31])
            v = val()
            def f():
                if not int_index(at) or at < 0 or at >= 2 ** 31 - 1:
                    raise Raise()
                if at > 100000:
                    raise Skip()
                while len(a) <= at:
                    a.append(None)
                a[at] = v
                return list(a)
            self.add("(put %s %s %s)" % (A, emit(at), emit(v)), f, "array/put")
        elif op in ("get", "in"):
            at = gen_index(r, n)
            def f():
                ok = int_index(at) and 0 <= at < n
                if op == "in" and not ok:
                    raise Raise()
                return a[at] if ok else None
            self.add("(%s %s %s)" % (op, A, emit(at)), f, "array/" + op)
        elif op == "length":
            self.add("(length %s)" % A, lambda: len(a), "array/length")

    # ---- buffers
    def buffer_step(self):
        r = self.rng
        i = r.randrange(2)
        b = self.bufs[i]
        B = "B%d" % i
        n = len(b)
        op = r.choice(["pushbyte", "pushword", "pushstring", "push", "pushself", "popn", "slice", "fill", "clear", "trim", "newfilled", "blit", "blit",
                       "blitself", "put", "get", "in", "bitset", "bitclear", "bittoggle", "bit", "pushat", "pushburst", "pushuint", "length", "setcount"])
        if op == "pushbyte":
            xs = [r.choice([0, 65, 255, 256, -1, 1000]) for _ in range(r.choice([1, 2]))]
            def f():
                for x in xs:
                    b.append(x & 0xFF)
                return Buf(b)
            self.add("(buffer/push-byte %s %s)" % (B, " ".join(str(x) for x in xs)), f, "buffer/push-byte")
        elif op == "pushword":
            w = r.choice([0, 1, 0x01020304, 0xFFFFFFFF, 2 ** 31])
            def f():
                b.extend((w & 0xFFFFFFFF).to_bytes(4, "little"))
                return Buf(b)
            self.add("(buffer/push-word %s %d)" % (B, w), f, "buffer/push-word")
        elif op == "pushstring":
            s = r.choice([b"", b"xy", b"\x00\xff", b"hello world"])
            def f():
                b.extend(s)
                return Buf(b)
            self.add("(buffer/push-string %s %s)" % (B, jbytes(s)), f, "buffer/push-string")
        elif op == "push":
            s = r.choice([b"q", b"", b"abc"])
            x = r.choice([0, 65, 255])
            def f():
                b.append(x)
                b.extend(s)
                return Buf(b)
            self.add("(buffer/push %s %d %s)" % (B, x, jbytes(s)), f, "buffer/push")
        elif op == "pushself":
            def f():
                b.extend(bytes(b))
                b.extend(bytes(b))
                return Buf(b)
            if n < 3000:
                self.nontrivial = self.nontrivial or n > 16
                self.add("(buffer/push %s %s %s)" % (B, B, B), f, "buffer/push-self")
        elif op == "pushburst":
            m = r.choice([20, 100, 600])
            def f():
                b.extend(bytes((j & 0xFF) for j in range(m)))
                return len(b)
            self.nontrivial = True
            self.add("(do (for j 0 %d (buffer/push-byte %s j)) (length %s))" % (m, B, B), f, "buffer/grow")
        elif op == "popn":
            k = r.choice([0, 1, 2, n, n + 3, -1])
            def f():
                if k < 0:
                    raise Raise()
                del b[max(0, n - k):]
                return Buf(b)
            self.add("(buffer/popn %s %d)" % (B, k), f, "buffer/popn")
        elif op == "slice":
            s = gen_index(r, n, odd=0.05)
            e = gen_index(r, n, odd=0.05) if r.random() < 0.6 else None
            def f():
                lo, hi = slice_range(n, s, e)
                return Buf(b[lo:hi])
            if not isinstance(s, (float, Kw)) and not isinstance(e, (float, Kw)) and s is not None:
                self.add("(buffer/slice %s %s%s)" % (B, emit(s), "" if e is None else " " + emit(e)), f, "buffer/slice")
        elif op == "fill":
            x = r.choice([0, 66, 255, 300])
            def f():
                b[:] = bytes([x & 0xFF]) * n
                return Buf(b)
            self.add("(buffer/fill %s %d)" % (B, x), f, "buffer/fill")
        elif op == "clear":
            def f():
                b.clear()
                return Buf(b)
            self.add("(buffer/clear %s)" % B, f, "buffer/clear")
        elif op == "trim":
            self.add("(buffer/trim %s)" % B, lambda: Buf(b), "buffer/trim")
        elif op == "newfilled":
            m = r.choice([0, 3, 40])
            x = r.choice([0, 65])
            def f():
                self.bufs[i] = bytearray([x] * m)
                return Buf(self.bufs[i])
            self.add("(set %s (buffer/new-filled %d %d))" % (B, m, x), f, "buffer/new-filled")
        elif op in ("blit", "blitself"):
            if op == "blit":
                src = r.choice([b"XY", b"", b"WXYZ", b"0123456789"])
                srcexpr = jbytes(src)
            else:
                src = bytes(b)
                srcexpr = B
            ds = gen_index(r, n, odd=0.05) if r.random() < 0.8 else None
            ss = gen_index(r, len(src), odd=0.05) if (ds is not None and r.random() < 0.5) else None
            se = gen_index(r, len(src), odd=0.05) if (ss is not None and r.random() < 0.6) else None
            def f():
                for x in (ds, ss, se):
                    if isinstance(x, (float, Kw)):
                        raise Raise()
                # dest-start: half range over dest; src-start/src-end: slice over src
                if ds is None:
                    d0 = 0
                else:
                    if not int_index(ds):
                        raise Raise()
                    d0 = ds + n + 1 if ds < 0 else ds
                    if d0 < 0 or d0 > n:
                        raise Raise()
                lo, hi = slice_range(len(src), ss, se)
                chunk = src[lo:hi]
                if d0 + len(chunk) > len(b):
                    b.extend(b"\0" * (d0 + len(chunk) - len(b)))
                b[d0:d0 + len(chunk)] = chunk
                return Buf(b)
            if ds is None and ss is not None:
                return
            args = "" if ds is None else " " + emit(ds) + ("" if ss is None else " " + emit(ss) + ("" if se is None else " " + emit(se)))
            if (ss is None or int_index(ss)) and (se is None or int_index(se)) and (ds is None or int_index(ds)):
                self.add("(buffer/blit %s %s%s)" % (B, srcexpr, args), f, "buffer/" + op)
        elif op == "put":
            at = r.choice([0, n - 1, n, n + 2, -1, 1.5, n // 2])
            x = r.choice([0, 65, 255, 300, -1])
            def f():
                if not int_index(at) or at < 0:
                    raise Raise()
                while len(b) <= at:
                    b.append(0)
                b[at] = x & 0xFF
                return Buf(b)
            self.add("(put %s %s %d)" % (B, emit(at), x), f, "buffer/put")
        elif op in ("get", "in"):
            at = gen_index(r, n)
            def f():
                ok = int_index(at) and 0 <= at < n
                if op == "in" and not ok:
                    raise Raise()
                return b[at] if ok else None
            self.add("(%s %s %s)" % (op, B, emit(at)), f, "buffer/" + op)
        elif op in ("bitset", "bitclear", "bittoggle", "bit"):
            bit = r.choice([0, 1, 7, 8, 8 * n - 1, 8 * n, -1, 8 * n + 5])
            def f():
                if bit < 0 or bit >= 8 * n:
                    raise Raise()
                byte, sh = bit // 8, bit % 8
                if op == "bit":
                    return bool(b[byte] & (1 << sh))
                if op == "bitset":
                    b[byte] |= (1 << sh)
                elif op == "bitclear":
                    b[byte] &= ~(1 << sh) & 0xFF
                else:
                    b[byte] ^= (1 << sh)
                return Buf(b)
            name = {"bitset": "bit-set", "bitclear": "bit-clear", "bittoggle": "bit-toggle", "bit": "bit"}[op]
            self.add("(buffer/%s %s %d)" % (name, B, bit), f, "buffer/" + name)
        elif op == "pushat":
            at = r.choice([0, 1, n - 1, n, n + 1, -1])
            s = r.choice([b"XY", b"", b"LONGER-STRING"])
            def f():
                if at < 0 or at > n:
                    raise Raise()
                b[at:at + len(s)] = s
                return Buf(b)
            self.add("(buffer/push-at %s %d %s)" % (B, at, jbytes(s)), f, "buffer/push-at")
        elif op == "pushuint":
            width, order, v = r.choice([(16, "le", 0x4142), (16, "be", 0x4142), (32, "le", 0x41424344), (32, "be", 1), (64, "le", 0x4142), (16, "le", 70000)])
            def f():
                if v >= 1 << width:
                    raise Raise()
                b.extend(v.to_bytes(width // 8, "little" if order == "le" else "big"))
                return Buf(b)
            self.add("(buffer/push-uint%d %s :%s %d)" % (width, B, order, v), f, "buffer/push-uint")
        elif op == "length":
            self.add("(length %s)" % B, lambda: len(b), "buffer/length")

    def build(self, nsteps):
        r = self.rng
        for s in range(nsteps):
            if self.kind == "table":
                self.table_step()
                if s % 25 == 24:
                    self.table_full()
            elif self.kind == "array":
                self.array_step()
            else:
                self.buffer_step()
        if self.kind == "table":
            self.table_full()
        head = "(var T0 @{}) (var T1 @{}) (var T2 @{}) (var A0 @[]) (var A1 @[]) (var B0 @\"\") (var B1 @\"\")\n"
        return PRELUDE + head + "\n".join(self.lines) + '\n(print "end")\n'


def run(ctx):
    exe = build.janet("asan")
    quick = ctx.tier == "quick"
    nhist = 900 if quick else 40000
    ctx.rule = ("random operation histories (40-300 steps) over 3 tables with prototype chains / 2 arrays / 2 buffers, keys from a small colliding "
                "universe incl. nil, NaN, -0, tuples; indices at and beyond both ends, huge, fractional, non-numeric; every step's result and a periodic "
                "full observable state (length, next-iteration, keys/values/pairs, get/in/rawget of the whole universe, verif/table-check) compared "
                "with the reference; non-trivial = history crossed a growth/rehash/tombstone burst; distinct by history seed")
    ctx.assumptions = ["reference containers in this file encode the documented index/range/put-nil rules", "table iteration order is unspecified: compared as sorted sets"]

    def do_hist(hi):
        rng = random.Random(ctx.sub_seed("hist", hi))
        kind = ["table", "table", "array", "buffer"][hi % 4]
        h = History(rng, kind)
        script = h.build(rng.choice([40, 80, 150, 300]))
        d = core.case_dir()
        path = os.path.join(d, "hist.janet")
        open(path, "w").write(script)
        res = core.run([exe, path], timeout=300, cpu=120)
        files = {"hist.janet": script}
        usable = ctx.check_result(res, files, where=kind)
        out = res.out.decode(errors="replace").splitlines()
        core.discard(res)
        got = {}
        for line in out:
            p = line.split(" ", 1)
            if len(p) == 2:
                got[p[0]] = p[1]
        last_seen = -1
        for sid, (want, expr, tag) in h.exp.items():
            if sid not in got:
                if usable:
                    ctx.violation("no-output:" + tag, "no output for step %s %s (stderr %s)" % (sid, expr, res.err[-300:]), files)
                elif res.crashed or res.san:
                    # attribute the crash to the first step without output
                    ctx.violation("crash-at:" + tag, "process ended at step %s: %s" % (sid, expr), files)
                break
            ctx.evals()
            ctx.count(tag)
            if got[sid] != want:
                kindv = "raise-mismatch" if (got[sid] == "err") != (want == "err") else "result"
                ctx.violation("%s:%s" % (kindv, tag), "step %s %s: janet %r, reference %r" % (sid, expr, got[sid][:300], want[:300]),
                              dict(files, **{"expected.txt": want, "observed.txt": got[sid]}))
                break   # later steps depend on diverged state
        if h.nontrivial:
            ctx.nontriv(hi)
        ctx.sample({"kind": kind, "steps": h.n, "first_steps": [e[1] for e in list(h.exp.values())[:5]]}, cap=4)

    core.pmap(do_hist, range(nhist))
