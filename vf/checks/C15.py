"""C15 — compiler specialisations of core functions preserve behaviour.

Monitor (metamorphic): the same function applied to the same operand tuple is
evaluated through every call route (inline with logging argument expressions,
constant operands, local operands, apply, splice, first-class parameter, alias,
if-condition, set-target aliasing an operand, result dropped, >255 live locals);
value, raised-or-not and the argument evaluation log must coincide with the
generic route (apply on the function value)."""
import os
import random

from vf import build, core
from vf.canon import jbytes

LEVEL = "exploration"

PRELUDE = open(os.path.join(core.VERIF, "janet", "canon.janet")).read() + r'''
(def LOG @[])
(defn L [i x] (array/push LOG i) x)
(def OBJ (table/setproto @{:name "obj"} @{:+ (fn [a b] :plus) :r+ (fn [a b] :rplus) :- (fn [a b] :minus) :* (fn [a b] [:times (type b)]) :r* (fn [a b] [:rtimes (type b)])
                                         :< (fn [a b] true) :compare (fn [a b] -1) :length (fn [a] 77) :get (fn [a k] :got)
                                         :/ (fn [a b] :div) :% (fn [a b] :rem) :mod (fn [a b] :mod) :div (fn [a b] :fdiv)
                                         :& (fn [a b] :and) :| (fn [a b] :or) :^ (fn [a b] :xor) :<< (fn [a b] :shl) :>> (fn [a b] :shr) :~ (fn [a] :not)}))
(def S64 (int/s64 5))
(def U64 (int/u64 7))
(def ARR @[10 20 30])
(def TUP [1 2 3])
(def TAB @{:a 1 0 :zero 1 :one})
(def FTAB @{:a false 0 false 1 0 :zz false})
(def FST {:a false 0 false 1 0})
(def FARR @[false 0 nil false])
(def STR "hello")
(def BUF @"buf")
(defn route [id name f]
  (array/clear LOG)
  (def r (protect (f)))
  (print id " " name " " (if (r 0) (string "ok " (canon (r 1))) "err") " | " (string/join (map string LOG) ","))
  (flush))
'''

FUNCS = ["+", "-", "*", "/", "div", "mod", "%", "band", "bor", "bxor", "blshift", "brshift", "brushift", "bnot",
         "<", ">", "<=", ">=", "=", "not=", "get", "in", "put", "length", "next", "cmp"]
ARITY = {"bnot": (1, 1), "length": (1, 1), "get": (2, 3), "in": (2, 3), "put": (3, 3), "next": (1, 2), "cmp": (2, 2)}

# (source text, is literal constant)
NUMS = [("-129", 1), ("-128", 1), ("-127", 1), ("-1", 1), ("0", 1), ("1", 1), ("2", 1), ("3", 1), ("126", 1), ("127", 1), ("128", 1), ("129", 1), ("0.5", 1),
        ("2147483647", 1), ("2147483648", 1), ("-2147483648", 1), ("1e10", 1), ("31", 1), ("32", 1), ("7", 1)]
OTHER = [("nil", 1), ('"s"', 1), (":k", 1), ("true", 1), ("OBJ", 0), ("S64", 0), ("U64", 0), ("ARR", 0), ("TUP", 0), ("TAB", 0), ("STR", 0), ("BUF", 0), (":a", 1), ("math/nan", 0)]


def operands(rng, f, n):
    out = []
    for i in range(n):
        c = rng.random()
        if f in ("get", "in", "put", "next", "length") and i == 0:
            out.append(rng.choice([("ARR", 0), ("TUP", 0), ("TAB", 0), ("STR", 0), ("BUF", 0), ("OBJ", 0), ("nil", 1), ("5", 1), ("FTAB", 0), ("FST", 0), ("FARR", 0), ("FTAB", 0)]))
        elif f in ("get", "in", "put", "next") and i == 1:
            out.append(rng.choice([("0", 1), ("1", 1), ("2", 1), ("3", 1), ("-1", 1), (":a", 1), (":zz", 1), ("nil", 1), ("1.5", 1), ("127", 1), ("128", 1)]))
        elif c < 0.72:
            out.append(rng.choice(NUMS))
        else:
            out.append(rng.choice(OTHER))
    return out


def make_case(rng, cid):
    f = rng.choice(FUNCS)
    lo, hi = ARITY.get(f, (0, 6))
    n = rng.randrange(lo, hi + 1)
    if rng.random() < 0.1 and f not in ARITY:
        n = rng.choice([0, 1, 7])
    ops = operands(rng, f, n)
    if f == "put":
        # put mutates its first argument: use a fresh container per route
        ops[0] = rng.choice([("(array 1 2 3)", 0), ("(table :a 1)", 0), ("(buffer \"ab\")", 0), ("(table/setproto @{} OBJ)", 0), ("nil", 1)])
        ops[2] = rng.choice(NUMS + [("nil", 1), (":k", 1)])
    logged = " ".join("(L %d %s)" % (i, o[0]) for i, o in enumerate(ops))
    plain = " ".join(o[0] for o in ops)
    names = " ".join("a%d" % i for i in range(n))
    binds = " ".join("a%d %s" % (i, o[0]) for i, o in enumerate(ops))
    routes = []
    routes.append(("apply", "(apply %s [%s])" % (f, logged)))
    routes.append(("inline", "(%s %s)" % (f, logged)))
    routes.append(("splice", "(%s ;[%s])" % (f, logged)))
    routes.append(("firstclass", "((fn [g] (g %s)) %s)" % (logged, f)))
    routes.append(("alias", "(G-%d %s)" % (FUNCS.index(f), logged)))
    routes.append(("locals", "(let [%s] (%s %s))" % (binds, f, names) if n else "(%s)" % f))
    routes.append(("params", "((fn [%s] (%s %s)) %s)" % (names, f, names, logged)))
    if all(o[1] for o in ops):
        routes.append(("const", "(%s %s)" % (f, plain)))
    routes.append(("ifcond", "(if (%s %s) :t :f)" % (f, logged)))
    routes.append(("whilecond", "(do (var once true) (var r :f) (while (and once (%s %s)) (set once false) (set r :t)) r)" % (f, logged)))
    routes.append(("dropped", "(do (%s %s) :done)" % (f, logged)))
    if 0 < sum(o[1] for o in ops) < n:
        # literal operands left as compile-time constants (immediate forms), the others evaluated at run time
        routes.append(("litmix", "(%s %s)" % (f, " ".join(o[0] if o[1] else "(L %d %s)" % (i, o[0]) for i, o in enumerate(ops)))))
    if n >= 3:
        routes.append(("settarget-mid", "(do (var x %s) (set x (%s (L 0 %s) x %s)) x)" % (ops[1][0], f, ops[0][0], " ".join("(L %d %s)" % (i + 2, o[0]) for i, o in enumerate(ops[2:])))))
    if n >= 1:
        routes.append(("settarget", "(do (var x %s) (set x (%s %s%sx)) x)" % (ops[-1][0], f, " ".join("(L %d %s)" % (i, o[0]) for i, o in enumerate(ops[:-1])), " " if n > 1 else "")))
        routes.append(("settarget-first", "(do (var x %s) (set x (%s x%s%s)) x)" % (ops[0][0], f, " " if n > 1 else "", " ".join("(L %d %s)" % (i + 1, o[0]) for i, o in enumerate(ops[1:])))))
    if rng.random() < 0.10 or (f in ("length", "bnot", "next", "get", "in") and rng.random() < 0.4):
        # > 255 live locals: operands live in far registers and are read only by the specialised instruction
        pad = " ".join("(def p%d (L 99 %d))" % (i, i) for i in range(rng.choice([238, 250, 256, 300])))
        fbinds = " ".join("(def a%d (L %d %s))" % (i, i, o[0]) for i, o in enumerate(ops))
        routes.append(("far", "((fn [] %s %s (%s %s)))" % (pad, fbinds, f, names)))
        routes.append(("far-keep", "((fn [] %s %s (def r (%s %s)) (+ p0 p1 p200) r))" % (pad, fbinds, f, names)))
    lines = ['(route "%s" "%s" (fn [] %s))' % (cid, name, expr) for name, expr in routes]
    return f, n, ops, lines, dict(routes)


def truthy(txt):
    return not (txt in ("ok nil", "ok false"))


def run(ctx):
    exe = build.janet("plain")
    quick = ctx.tier == "quick"
    total = 60000 if quick else 1500000
    per = 150
    ctx.rule = ("specialised function x arity 0..7 x operand tuple (immediates -129..129 and neighbours, fractions, 2^31 neighbours, nil, strings, keywords, "
                "containers, table with operator methods, int/s64, int/u64) evaluated through 10-14 call routes; non-trivial = tuple with an immediate-range "
                "integer and a non-numeric/boxed operand, or arity other than 2; distinct by (function, operand source text)")
    ctx.assumptions = ["the generic route is (apply f [...]) on the function value; error messages may differ, only raised-or-not must coincide",
                       "NaN results are compared by canonical bits"]
    nb = (total + per - 1) // per
    header = PRELUDE + "\n".join("(def G-%d %s)" % (i, f) for i, f in enumerate(FUNCS)) + "\n"

    def do_batch(bi):
        rng = random.Random(ctx.sub_seed("b", bi))
        lines = [header]
        cases = {}
        for ci in range(per):
            cid = "c%d" % ci
            f, n, ops, ls, routes = make_case(rng, cid)
            lines.extend(ls)
            cases[cid] = (f, n, ops, routes)
        script = "\n".join(lines) + "\n"
        d = core.case_dir()
        path = os.path.join(d, "batch.janet")
        open(path, "w").write(script)
        res = core.run([exe, path], timeout=600, cpu=300)
        files = {"batch.janet": script}
        usable = ctx.check_result(res, files, where="batch")
        got = {}
        for line in res.out.decode(errors="replace").splitlines():
            p = line.split(" ", 2)
            if len(p) == 3:
                got.setdefault(p[0], {})[p[1]] = p[2]
        core.discard(res)
        if not usable and not got:
            return
        for cid, (f, n, ops, routes) in cases.items():
            g = got.get(cid, {})
            if "apply" not in g:
                if usable:
                    ctx.violation("no-output", "no output for case %s (%s %s)" % (cid, f, [o[0] for o in ops]), files)
                break
            ref_res, _, ref_log = g["apply"].partition(" | ")
            opsrc = " ".join(o[0] for o in ops)
            for name, expr in routes.items():
                if name == "apply":
                    continue
                ctx.evals()
                if name not in g:
                    ctx.violation("no-output:" + name, "no output for route %s of (%s %s)" % (name, f, opsrc), files)
                    continue
                r_res, _, r_log = g[name].partition(" | ")
                single = {"case.janet": header + '(route "c" "apply" (fn [] %s))\n(route "c" "%s" (fn [] %s))\n' % (routes["apply"], name, expr)}
                if name in ("ifcond", "whilecond"):
                    want = "err" if ref_res == "err" else ("ok k74" if truthy(ref_res) else "ok k66")
                elif name == "dropped":
                    want = "err" if ref_res == "err" else "ok k646f6e65"
                else:
                    want = ref_res
                if name.startswith("settarget"):
                    # the variable itself is one operand: the log has one entry fewer
                    want_log = None
                else:
                    want_log = ref_log if name not in ("locals", "const", "far", "far-keep", "litmix") else None
                if r_res != want:
                    kind = "raise-mismatch" if (r_res == "err") != (want == "err") else "value"
                    opclass = (":" + "+".join(o[0] for o in ops)) if n <= 1 else ""
                    ctx.violation("%s:%s:%s:arity%d%s" % (kind, name, f, min(n, 3), opclass), "(%s %s): route %s gave %s, generic route gave %s  [%s]" % (f, opsrc, name, r_res, want, expr[:200]), single)
                elif want_log is not None and r_log != want_log and ref_res != "err":
                    ctx.violation("eval-order:%s:%s" % (name, f), "(%s %s): route %s evaluated arguments in order [%s], generic [%s]" % (f, opsrc, name, r_log, want_log), single)
            ctx.count("fn:" + f)
            nontriv = n != 2 or (any(o in [x for x in NUMS[:13]] for o in ops) and any(o in OTHER for o in ops))
            if nontriv:
                ctx.nontriv((f, opsrc))
            ctx.sample({"function": f, "operands": opsrc, "generic": ref_res, "routes": len(routes)}, cap=6)

    core.pmap(do_batch, range(nb))

    # directed: conditions whose head is the function VALUE = / not= (what each, loop and friends expand to), nested in each other; the
    # compiled special forms (nil-test jumps in while / if) must agree with calling the function values
    header = PRELUDE
    conds = ["(,= nil X)", "(,not= nil X)", "(,= X nil)", "(,not= X nil)", "(,= nil (,not= nil X))", "(,not= nil (,= nil X))", "(,= (,= nil X) nil)",
             "(,not= (,not= X nil) nil)", "(,= nil (,= nil X))", "(,not= nil (,not= nil X))", "(,= nil nil)", "(,not= nil nil)", "(,= nil 1)", "(,not= 1 nil)"]
    vals = ["nil", "false", "true", "0", ":k", "@[]"]
    lines = [header]
    exp = []
    k = 0
    for cnd in conds:
        for v in vals:
            for form in ("while", "if", "while-closure", "if-const", "while-const"):
                k += 1
                did = "d%d" % k
                refc = cnd.replace(",=", "(get FV 0)").replace(",not=", "(get FV 1)")
                if form == "while":
                    comp = "(eval ~(do (var x %s) (var n 0) (while %s (++ n) (set x (if (= n 1) false nil)) (if (> n 3) (break))) n))" % (v, cnd.replace("X", "x"))
                    ref = "(do (var x %s) (var n 0) (while %s (++ n) (set x (if (= n 1) false nil)) (if (> n 3) (break))) n)" % (v, refc.replace("X", "x"))
                elif form == "while-closure":
                    comp = "(eval ~(do (var x %s) (var n 0) (def fs @[]) (while %s (def y n) (array/push fs (fn [] y)) (++ n) (set x (if (= n 1) false nil)) (if (> n 3) (break))) [n (length fs)]))" % (v, cnd.replace("X", "x"))
                    ref = "(do (var x %s) (var n 0) (def fs @[]) (while %s (def y n) (array/push fs (fn [] y)) (++ n) (set x (if (= n 1) false nil)) (if (> n 3) (break))) [n (length fs)])" % (v, refc.replace("X", "x"))
                elif form == "if-const":
                    # the operand is a compile-time constant: the compiler folds the test
                    comp = "(eval ~(if %s :t :f))" % cnd.replace("X", v)
                    ref = "(if %s :t :f)" % refc.replace("X", v)
                elif form == "while-const":
                    comp = "(eval ~(do (var n 0) (while %s (++ n) (if (> n 2) (break))) n))" % cnd.replace("X", v)
                    ref = "(do (var n 0) (while %s (++ n) (if (> n 2) (break))) n)" % refc.replace("X", v)
                else:
                    comp = "(eval ~(do (def x %s) (if %s :t :f)))" % (v, cnd.replace("X", "x"))
                    ref = "(do (def x %s) (if %s :t :f))" % (v, refc.replace("X", "x"))
                lines.append('(route "%s" "compiled" (fn [] %s))' % (did, comp))
                lines.append('(route "%s" "generic" (fn [] %s))' % (did, ref))
                exp.append((did, form, cnd, v, comp))
    script = "\n".join(lines).replace(PRELUDE, PRELUDE + "\n(def FV @[= not=])\n") + "\n"
    d = core.case_dir()
    path = os.path.join(d, "directed.janet")
    open(path, "w").write(script)
    res = core.run([exe, path], timeout=300, cpu=120)
    files = {"directed.janet": script}
    if ctx.check_result(res, files, where="directed"):
        got = {}
        for line in res.out.decode(errors="replace").splitlines():
            p = line.split(" ", 2)
            if len(p) == 3:
                got.setdefault(p[0], {})[p[1]] = p[2].split(" | ")[0]
        for did, form, cnd, v, comp in exp:
            g = got.get(did, {})
            ctx.evals()
            if "compiled" not in g or "generic" not in g:
                ctx.violation("no-output:directed", "no output for directed case %s" % comp, files)
                break
            ctx.count("directed_nilforms")
            if g["compiled"] != g["generic"]:
                ctx.violation("value:nilform-%s:%s" % (form, cnd.replace(" ", "")), "x=%s: %s gave %s, the same condition through function values gave %s" % (v, comp, g["compiled"], g["generic"]),
                              {"case.janet": PRELUDE + "(def FV @[= not=])\n(pp %s)\n" % comp})
    core.discard(res)
