"""C03 — equality, hashing and ordering agree with each other.

Monitor: pools of values, each value known by content (Python description) and
built in several ways; all pairs are evaluated inside janet (=, hash, compare,
< <= > >=) and the result matrices are checked against the algebraic laws and
against content equality known by construction."""
import itertools
import os
import random

from vf import build, core
from vf.canon import Kw, Sym, Tup, Struct, Buf, canon, emit, jbytes

LEVEL = "exploration"

DRIVER = r'''
(def n (length pool))
(each x pool (prin (hash x) " "))
(print)
(defn row [f] (each a pool (each b pool (prin (f a b))) (print)))
(row (fn [a b] (if (= a b) "1" "0")))
(row (fn [a b] (def c (compare a b)) (cond (< c 0) "L" (> c 0) "G" "E")))
(row (fn [a b] (if (< a b) "1" "0")))
(row (fn [a b] (if (<= a b) "1" "0")))
(row (fn [a b] (if (> a b) "1" "0")))
(row (fn [a b] (if (>= a b) "1" "0")))
(row (fn [a b] (if (deep= a b) "1" "0")))
(each x pool (prin (if (or (struct? x) (table? x)) (if (nil? (verif/table-check x)) "1" "0") "1")))
(print)
(print "done " n)
'''

HASH_PROBE = r'''
(for i 0 3000 (print "i" i " " (hash i)))
(for i 0 1500 (print "s" i " " (hash (string "k" i))))
(for i 0 1500 (print "w" i " " (hash (keyword "k" i))))
'''

CHURN = r'''
# symbol / keyword re-interning under collection: originals kept alive must stay identical to
# values re-interned from the same bytes, whatever was freed in between.
(def [n-total keep-mod rounds seed] (map scan-number (slice (dyn :args) 1)))
(def rng (math/rng seed))
(var bad 0)
(var checked 0)
(defn name [i] (string "sym-" seed "-" i))
(for round 0 rounds
  (def kept @{})
  (def garbage @[])
  (for i 0 n-total
    (def mk (if (even? i) symbol keyword))
    (def s (mk (name (+ i (* round 7)))))
    (if (= 0 (% (math/rng-int rng 1000) keep-mod)) (put kept i s) (array/push garbage s)))
  (array/clear garbage)
  (gccollect)
  # re-intern in a random order, twice
  (def idx (map last (sort (map (fn [i] [(math/rng-uniform rng) i]) (keys kept)))))
  (repeat 2
    (each i idx
      (def mk (if (even? i) symbol keyword))
      (def orig (in kept i))
      (def again (mk (string/slice (string "x" (name (+ i (* round 7)))) 1)))
      (++ checked)
      (unless (= orig again) (++ bad) (print "VIOL identical " (name i)))
      (unless (= (hash orig) (hash again)) (++ bad) (print "VIOL hash " (name i)))
      (unless (= 0 (compare orig again)) (++ bad) (print "VIOL compare " (name i)))
      (unless (= i (get (struct orig i) again)) (++ bad) (print "VIOL struct-lookup " (name i)))
      (unless (= i (get @{orig i} again)) (++ bad) (print "VIOL table-lookup " (name i))))
    (gccollect)))
(print "churn checked=" checked " bad=" bad)
'''

NUMS = [0, -0.0, 1, -1, 2, 3, 0.5, -0.5, 2 ** 31 - 1, 2 ** 31, 2 ** 31 + 1, -2 ** 31, -2 ** 31 - 1, 2 ** 53 - 1, 2 ** 53,
        1e100, -1e100, float("inf"), float("-inf"), 127, 128, 255, 256, 1e-300]
# the second row holds same-length strings with equal 33-multiplier hashes (c1*33+c2 equal): equal hash must not be taken for equal content
STRS = [b"", b"a", b"b", b"ab", b"ba", b"a\x00", b"a\x00b", b"\xff", b"abc", b"aa",
        b"bA", b"ac", b"bB", b"bb", b"cA", b"xab", b"xbA", b"abz", b"bAz", b"abab", b"bAbA", b"abbA"]


def content_key(v):
    """Content identity under Janet's = : like canon but -0 == 0."""
    return canon(v).replace("-0", "0") if isinstance(v, float) and v == 0 else _ck(v)


def _ck(v):
    if isinstance(v, float) and v == 0:
        return "0"
    if isinstance(v, Tup):
        o, c = ("[", "]") if v.bracket else ("(", ")")
        return o + " ".join(_ck(e) for e in v.items) + c
    if isinstance(v, Struct):
        items = sorted((_ck(k), _ck(val)) for k, val in v.pairs)
        body = " ".join(k + " " + val for k, val in items)
        if v.proto is not None:
            body += " ^" + _ck(v.proto)
        return "{" + body + "}"
    return canon(v)


def freezable(v):
    """freeze flattens prototypes and turns bracket tuples into plain ones, so it only preserves
    content for subtrees without either."""
    if isinstance(v, Tup):
        return (not v.bracket) and all(freezable(e) for e in v.items)
    if isinstance(v, Struct):
        return v.proto is None and all(freezable(k) and freezable(x) for k, x in v.pairs)
    return True


class G:
    def __init__(self, rng, hashes):
        self.rng = rng
        self.hashes = hashes   # dict: key description -> janet hash, for collision-seeking key sets

    def leaf(self, jdn=False):
        r = self.rng
        c = r.random()
        if c < 0.4:
            v = r.choice(NUMS)
            if jdn and isinstance(v, float) and (v in (float("inf"), float("-inf"))):
                v = 7
            return v
        if c < 0.6:
            return r.choice(STRS)
        if c < 0.72:
            b = r.choice(STRS[1:])
            return Sym(b if not jdn else b.replace(b"\x00", b"z").replace(b"\xff", b"y"))
        if c < 0.86:
            b = r.choice(STRS[1:])
            return Kw(b if not jdn else b.replace(b"\x00", b"z").replace(b"\xff", b"y"))
        if c < 0.94:
            return r.choice([True, False])
        return None

    def keyset(self, n):
        """Keys chosen to collide modulo the struct capacity when hashes are known."""
        r = self.rng
        if self.hashes and r.random() < 0.7:
            cap = 1
            while cap <= 2 * n:
                cap *= 2
            b = r.randrange(cap)
            near = [k for k, h in self.hashes if ((h & 0xFFFFFFFF) & (cap - 1)) in (b, (b + 1) % cap, (b - 1) % cap)]
            if len(near) >= n:
                ks = r.sample(near, n)
                out = []
                for k in ks:
                    if k[0] == "i":
                        out.append(int(k[1:]))
                    elif k[0] == "s":
                        out.append(("k" + k[1:]).encode())
                    else:
                        out.append(Kw("k" + k[1:]))
                return out
        keys = []
        seen = set()
        while len(keys) < n:
            k = self.leaf(jdn=True)
            if k is None or (isinstance(k, float) and k != k):
                continue
            ck = _ck(k)
            if ck in seen:
                continue
            seen.add(ck)
            keys.append(k)
        return keys

    def value(self, depth, jdn=False):
        r = self.rng
        if depth <= 0 or r.random() < 0.35:
            return self.leaf(jdn)
        if r.random() < 0.5:
            n = r.choice([0, 1, 2, 2, 3, 4])
            return Tup([self.value(depth - 1, jdn) for _ in range(n)], bracket=r.random() < 0.3)
        n = r.choice([0, 1, 2, 3, 3, 4, 5, 6, 8])
        keys = self.keyset(n)
        pairs = []
        for k in keys:
            v = self.value(depth - 1, jdn)
            if v is None:
                v = 1
            pairs.append((k, v))
        proto = None
        if r.random() < 0.15 and depth > 1:
            pk = self.keyset(r.choice([1, 2]))
            proto = Struct([(k, self.leaf(jdn) if self.leaf(jdn) is not None else 2) for k in pk])
            proto = Struct([(k, (v if v is not None else 2)) for k, v in proto.pairs])
        return Struct(pairs, proto)

    # ---- constructions -------------------------------------------------
    def construct(self, v, style=None):
        """A Janet expression building a value with content v, by a randomly chosen route."""
        r = self.rng
        if isinstance(v, Tup):
            items = [self.construct(e) for e in v.items]
            body = " ".join(items)
            routes = ["ctor", "slice", "splice", "marsh"]
            if freezable(v):
                routes.append("freeze")
            c = style or r.choice(routes)
            ctor = "tuple/brackets" if v.bracket else "tuple"
            if c == "ctor":
                return "(%s %s)" % (ctor, body)
            if c == "slice":
                if v.bracket:
                    return "(tuple/brackets ;(tuple/slice (tuple :pad %s) 1))" % body
                return "(tuple/slice (tuple :pad %s) 1)" % body
            if c == "splice":
                return "(%s ;(array %s))" % (ctor, body)
            if c == "marsh":
                return "(unmarshal (marshal (%s %s)))" % (ctor, body)
            return "(freeze (array %s))" % body
        if isinstance(v, Struct):
            pairs = list(v.pairs)
            r.shuffle(pairs)
            kv = " ".join(self.construct(k) + " " + self.construct(val) for k, val in pairs)
            c = style or r.choice(["ctor", "ctor", "tostruct", "freeze", "marsh", "nilpad", "dup"])
            if c == "freeze" and not freezable(v):
                c = "tostruct"
            if v.proto is not None:
                p = self.construct(v.proto)
                if c == "marsh":
                    return "(unmarshal (marshal (struct/with-proto %s %s)))" % (p, kv)
                if c in ("tostruct", "freeze"):
                    return "(table/to-struct (table %s) %s)" % (kv, p)
                return "(struct/with-proto %s %s)" % (p, kv)
            if c == "ctor":
                return "(struct %s)" % kv
            if c == "tostruct":
                return "(table/to-struct (table %s))" % kv
            if c == "freeze":
                return "(freeze (table %s))" % kv
            if c == "marsh":
                return "(unmarshal (marshal (struct %s)))" % kv
            if c == "nilpad":
                return "(struct :zz-pad nil %s :zz-pad2 nil)" % kv
            if pairs:
                k0, v0 = pairs[0]
                return "(struct %s %s %s)" % (kv, self.construct(k0), self.construct(v0))
            return "(struct)"
        if isinstance(v, bytes):
            c = r.choice(["lit", "cat", "slice", "buf"])
            if c == "lit" or len(v) == 0:
                return jbytes(v)
            if c == "cat":
                i = r.randrange(len(v) + 1)
                return "(string %s %s)" % (jbytes(v[:i]), jbytes(v[i:]))
            if c == "slice":
                return "(string/slice %s 1)" % jbytes(b"x" + v)
            return "(string (buffer %s))" % jbytes(v)
        if isinstance(v, Sym):
            c = r.choice(["a", "b", "c"])
            if c == "a":
                return "(symbol %s)" % jbytes(v.b)
            if c == "b":
                i = r.randrange(len(v.b) + 1)
                return "(symbol %s %s)" % (jbytes(v.b[:i]), jbytes(v.b[i:]))
            return "(symbol (keyword %s))" % jbytes(v.b)
        if isinstance(v, Kw):
            c = r.choice(["a", "b", "c"])
            if c == "a":
                return "(keyword %s)" % jbytes(v.b)
            if c == "b":
                i = r.randrange(len(v.b) + 1)
                return "(keyword %s %s)" % (jbytes(v.b[:i]), jbytes(v.b[i:]))
            return "(keyword (string/slice %s 1))" % jbytes(b"q" + v.b)
        if isinstance(v, (int, float)) and not isinstance(v, bool):
            c = r.choice(["lit", "add", "marsh"])
            if c == "lit":
                return emit(v)
            if c == "add":
                return "(+ %s 0)" % emit(v) if not (isinstance(v, float) and v == 0) else emit(v)
            return "(unmarshal (marshal %s))" % emit(v)
        return emit(v)


def make_pool(rng, hashes, size):
    g = G(rng, hashes)
    entries = []   # (content, expr, kind)
    while len(entries) < size:
        v = g.value(rng.choice([0, 1, 2, 2, 3]))
        copies = rng.choice([1, 2, 2, 3, 4])
        for _ in range(copies):
            entries.append((v, g.construct(v), "content"))
        # near-misses: same shape with one leaf changed / bracket flipped
        if isinstance(v, Tup) and rng.random() < 0.5:
            w = Tup(v.items, not v.bracket)
            entries.append((w, g.construct(w), "content"))
        if isinstance(v, Struct) and v.pairs and rng.random() < 0.5:
            ps = list(v.pairs)
            k, val = ps[0]
            ps[0] = (k, 424242)
            w = Struct(ps, v.proto)
            entries.append((w, g.construct(w), "content"))
            # every permutation of small structs
            if len(v.pairs) <= 4 and v.proto is None:
                for perm in list(itertools.permutations(v.pairs))[:8]:
                    kv = " ".join(g.construct(kk) + " " + g.construct(vv) for kk, vv in perm)
                    entries.append((v, "(struct %s)" % kv, "content"))
    # identity types: each instance equals only itself
    for expr in ["@[1 2]", "@[1 2]", "@{:a 1}", "@{:a 1}", "@\"ab\"", "@\"ab\"", "(fn [] 1)", "(fn [] 1)", "(fiber/new (fn [] 1))", "(fiber/new (fn [] 1))"]:
        if rng.random() < 0.6:
            entries.append((None, expr, "identity"))
    rng.shuffle(entries)
    return entries[:size + 12]


GENSYM_PROG = r'''
# gensym must never hand out a name that is already interned: equal bytes <=> identical symbol must keep holding
(def alpha "0123456789abcdefghijklmnopqrstuvwxyzABCDEFGHIJKLMNOPQRSTUVWXYZ")
(defn succ [name]
  (def b (buffer name))
  (var i (- (length b) 1))
  (while (> i 0)
    (def k (string/find (string/from-bytes (b i)) alpha))
    (if (= k 61) (do (put b i (chr "0")) (-- i)) (do (put b i (alpha (+ k 1))) (break))))
  (string b))
(var bad 0)
(for round 0 %d
  (var name (string (gensym)))
  (def live @[])
  # intern the next names by ordinary means (symbols, keywords do not count, parsed symbols), with gaps
  (for j 0 14
    (set name (succ name))
    (when (not= 0 (%% (+ j round) 3)) (array/push live (if (even? j) (symbol name) (parse name)))))
  (def keys (table ;(mapcat (fn [s] [s true]) live)))
  (def fresh (seq [j :range [0 8]] (gensym)))
  (each g fresh
    (unless (= g (symbol (string g))) (++ bad) (print "G not-self-identical " g))
    (each l live (when (and (= (string g) (string l)) (not= g l)) (++ bad) (print "G duplicate-name " g)))
    (when (get keys g) (++ bad) (print "G collides-with-live-key " g)))
  (unless (= (length (distinct (map string (array/concat @[] live fresh)))) (+ (length live) (length fresh))) (++ bad) (print "G repeated-text round " round)))
(print "GENSYM-DONE " bad)
'''

BOXED_DRIVER = r"""
(def n (length pool))
(defn row [f] (each a pool (each b pool (prin (f a b))) (print)))
(row (fn [a b] (if (= a b) "1" "0")))
(row (fn [a b] (def c (cmp a b)) (cond (< c 0) "L" (> c 0) "G" "E")))
(row (fn [a b] (if (< a b) "1" "0")))
(row (fn [a b] (if (<= a b) "1" "0")))
(row (fn [a b] (if (> a b) "1" "0")))
(row (fn [a b] (if (>= a b) "1" "0")))
(row (fn [a b] (if (= (hash a) (hash b)) "1" "0")))
(row (fn [a b] (if (= [a :x] [b :x]) "1" "0")))
(row (fn [a b] (def c (cmp [1 a] [1 b])) (cond (< c 0) "L" (> c 0) "G" "E")))
(row (fn [a b] (if (= {:k a} {:k b}) "1" "0")))
(def tbl @{})
(eachp [i a] pool (when (nil? (get tbl a)) (put tbl a i)))
(each b pool (prin (or (get tbl b) "none") " "))
(print)
(def st (struct ;(mapcat (fn [a] [a true]) pool)))
(each b pool (prin (if (get st b) "1" "0")))
(print)
(print "done " n)
"""


def boxed_values(rng, kind):
    """Integers whose pairwise differences include multiples of 2^32, values with bit 31 set and the extremes."""
    lo, hi = (-(1 << 63), (1 << 63) - 1) if kind == "s64" else (0, (1 << 64) - 1)
    base = [0, 1, 2, (1 << 31) - 1, 1 << 31, (1 << 31) + 1, 1 << 32, (1 << 32) + 1, 3 << 32, 3000000000, 1 << 33, 1 << 53, (1 << 53) + 1, 1 << 62, hi, hi - 1,
            hi - (1 << 32), lo, lo + 1]
    if kind == "s64":
        base += [-1, -2, -(1 << 31), -(1 << 31) - 1, -(1 << 32), -(1 << 32) + 1, -3000000000, -(1 << 62), lo + (1 << 32)]
    else:
        base += [1 << 63, (1 << 63) + 1, (1 << 63) - 1, (1 << 64) - (1 << 32)]
    vals = list(base)
    for _ in range(8):
        r = rng.randrange(lo, hi + 1)
        vals.append(r)
        for d in (rng.randrange(1, 1 << 31) << 32, 1 << 32, (1 << 31) + rng.randrange(1 << 20), rng.randrange(1, 1 << 31)):
            for x in (r + d, r - d):
                if lo <= x <= hi and rng.random() < 0.5:
                    vals.append(x)
    rng.shuffle(vals)
    vals = vals[:34]
    # duplicates by value, built by another route
    vals += [rng.choice(vals) for _ in range(8)]
    return vals


def boxed_expr(rng, kind, v):
    ctor = "int/" + kind
    c = rng.randrange(4)
    if c == 0:
        return '(%s "%d")' % (ctor, v)
    if c == 1:
        return '(unmarshal (marshal (%s "%d")))' % (ctor, v)
    if c == 2:
        return '(* 1 (%s "%d"))' % (ctor, v)
    lo = -(1 << 63) if kind == "s64" else 0
    if v > lo:
        return '(+ (%s "%d") 1)' % (ctor, v - 1)
    return '(- (%s "%d") 1)' % (ctor, v + 1)


def boxed_pool(ctx, exe, bi):
    """Laws over boxed 64-bit integers of one kind: primitive = < <= > >= cmp and hash must agree with the integers."""
    rng = random.Random(ctx.sub_seed("boxed", bi))
    kind = "s64" if bi % 2 == 0 else "u64"
    vals = boxed_values(rng, kind)
    exprs = [boxed_expr(rng, kind, v) for v in vals]
    script = "(def pool @[])\n" + "".join("(array/push pool %s)\n" % e for e in exprs) + BOXED_DRIVER
    dd = core.case_dir()
    path = os.path.join(dd, "boxed.janet")
    open(path, "w").write(script)
    res = core.run([exe, path], timeout=300, cpu=120)
    files = {"boxed.janet": script}
    if not ctx.check_result(res, files, where="boxed"):
        core.discard(res)
        return
    lines = res.out.decode(errors="replace").splitlines()
    core.discard(res)
    n = len(vals)
    if len(lines) != 10 * n + 3 or not lines[-1].startswith("done"):
        ctx.violation("boxed-script-failed", "boxed pool script did not complete: %s" % res.err.decode(errors="replace")[-600:], files)
        return
    names = ["eq", "cmp", "lt", "le", "gt", "ge", "hasheq", "tupeq", "tupcmp", "structeq"]
    mats = {nm: lines[mi * n:(mi + 1) * n] for mi, nm in enumerate(names)}
    tblrow = lines[10 * n].split()
    if len(tblrow) != n or len(lines[10 * n + 1]) != n:
        ctx.violation("boxed-script-failed", "boxed pool script printed malformed lookup rows", files)
        return
    strow = lines[10 * n + 1]

    def viol(rule, i, j, extra=""):
        small = "(def pool @[])\n" + "".join("(array/push pool %s)\n" % exprs[x] for x in (i, j)) + BOXED_DRIVER
        ctx.violation("boxed-%s:%s" % (rule, kind), "%s violated by %s | %s %s" % (rule, exprs[i], exprs[j], extra), {"boxed.janet": small, "full_pool.janet": script})

    first = {}
    for i, v in enumerate(vals):
        first.setdefault(v, i)
    for i in range(n):
        if tblrow[i] != str(first[vals[i]]):
            viol("table-lookup", i, first[vals[i]], extra="(table keyed by the pool returned %s, expected index %d)" % (tblrow[i], first[vals[i]]))
        if strow[i] != "1":
            viol("struct-lookup", i, i)
        for j in range(n):
            ctx.evals()
            a, b = vals[i], vals[j]
            want_c = "E" if a == b else ("L" if a < b else "G")
            if a != b and exprs[i] != exprs[j]:
                ctx.nontriv(("boxed", bi, i, j))
            if (mats["eq"][i][j] == "1") != (a == b):
                viol("eq-vs-value", i, j)
            if mats["cmp"][i][j] != want_c:
                viol("cmp-vs-value", i, j, extra="(cmp gave %s)" % mats["cmp"][i][j])
            if (mats["lt"][i][j] == "1") != (a < b) or (mats["le"][i][j] == "1") != (a <= b) or \
               (mats["gt"][i][j] == "1") != (a > b) or (mats["ge"][i][j] == "1") != (a >= b):
                viol("relational-vs-value", i, j)
            if a == b and mats["hasheq"][i][j] != "1":
                viol("eq-implies-hash", i, j)
            if (mats["tupeq"][i][j] == "1") != (a == b) or (mats["structeq"][i][j] == "1") != (a == b):
                viol("container-eq-vs-value", i, j)
            if mats["tupcmp"][i][j] != want_c:
                viol("tuple-cmp-vs-value", i, j)
    ctx.count("boxed_pools")


def run(ctx):
    exe = build.janet("plain")
    quick = ctx.tier == "quick"
    npools = 60 if quick else 2500
    size = 56
    ctx.rule = ("pools of ~60 values known by content, each built by several routes (constructors in random/every insertion order, slices, splices, "
                "freeze, table/to-struct, marshal round trip, nil-padded and duplicate-key struct calls; symbols/keywords re-interned under a seeded "
                "random GC schedule); key sets chosen to collide modulo the struct capacity using hashes measured from the binary; all pairs and "
                "triples checked; non-trivial = pair whose two sides are containers built by different routes")
    ctx.assumptions = ["content equality of descriptions is decided in Python by canonical text (with -0 = 0)", "NaN excluded as the property states"]
    # measure hashes of the key universe once
    d = core.case_dir()
    hp = os.path.join(d, "hashprobe.janet")
    open(hp, "w").write(HASH_PROBE)
    r = core.run([exe, hp], timeout=60)
    hashes = []
    for line in r.out.decode().splitlines():
        k, h = line.split(" ")
        hashes.append((k, int(h)))
    core.discard(r)
    if len(hashes) < 5000:
        raise core.HarnessError("hash probe failed: " + r.err.decode(errors="replace")[-300:])

    def do_pool(pi):
        rng = random.Random(ctx.sub_seed("pool", pi))
        entries = make_pool(rng, hashes, size)
        script = "(def pool @[])\n" + "".join("(array/push pool %s)\n" % e[1] for e in entries) + DRIVER
        dd = core.case_dir()
        path = os.path.join(dd, "pool.janet")
        open(path, "w").write(script)
        env = {}
        mode = pi % 3
        if mode == 1:
            env["JANET_VERIF_GC"] = "rand:%d:1/16" % (ctx.sub_seed("gc", pi) % 100000)
        elif mode == 2:
            env["JANET_VERIF_GC"] = "rand:%d:1/2" % (ctx.sub_seed("gc", pi) % 100000)
        res = core.run([exe, path], env=env, timeout=300, cpu=120)
        files = {"pool.janet": script}
        if not ctx.check_result(res, files, where="pool"):
            core.discard(res)
            return
        lines = res.out.decode(errors="replace").splitlines()
        core.discard(res)
        n = len(entries)
        if len(lines) != 1 + 7 * n + 2 or not lines[-1].startswith("done"):
            ctx.violation("pool-script-failed", "pool script did not complete: %s" % res.err.decode(errors="replace")[-600:], files)
            return
        hs = [int(x) for x in lines[0].split()]
        mats = {}
        names = ["eq", "cmp", "lt", "le", "gt", "ge", "deep"]
        for mi, nm in enumerate(names):
            mats[nm] = lines[1 + mi * n: 1 + (mi + 1) * n]
        tcheck = lines[1 + 7 * n]
        keys = [(_ck(e[0]) if e[2] == "content" else "identity#%d" % i) for i, e in enumerate(entries)]
        eq, cmp_ = mats["eq"], mats["cmp"]

        def viol(rule, i, j, k=None, extra=""):
            involved = [i, j] + ([k] if k is not None else [])
            kinds = "+".join(sorted(set(type(entries[x][0]).__name__ for x in involved)))
            small = "(def pool @[])\n" + "".join("(array/push pool %s)\n" % entries[x][1] for x in involved) + DRIVER
            ctx.violation("%s:%s" % (rule, kinds), "%s violated by %s %s" % (rule, " | ".join(entries[x][1] for x in involved), extra),
                          {"pool.janet": small, "full_pool.janet": script})

        for i in range(n):
            if tcheck[i] != "1":
                viol("struct-invariant", i, i)
            for j in range(n):
                ctx.evals()
                e = eq[i][j] == "1"
                want = keys[i] == keys[j]
                if e != want:
                    viol("eq-vs-content", i, j, extra="(= gave %s, contents %s)" % (e, "equal" if want else "different"))
                if e != (eq[j][i] == "1"):
                    viol("eq-symmetry", i, j)
                if e and hs[i] != hs[j]:
                    viol("eq-implies-hash", i, j, extra="hashes %d %d" % (hs[i], hs[j]))
                c = cmp_[i][j]
                if (c == "E") != e:
                    viol("compare-zero-iff-eq", i, j, extra="compare=%s eq=%s" % (c, e))
                inv = {"L": "G", "G": "L", "E": "E"}[c]
                if cmp_[j][i] != inv:
                    viol("compare-antisymmetry", i, j)
                if (mats["lt"][i][j] == "1") != (c == "L") or (mats["le"][i][j] == "1") != (c in "LE") or \
                   (mats["gt"][i][j] == "1") != (c == "G") or (mats["ge"][i][j] == "1") != (c in "GE"):
                    viol("relational-vs-compare", i, j)
                if entries[i][2] == "content" and entries[j][2] == "content":
                    if i != j and isinstance(entries[i][0], (Tup, Struct)) and entries[i][1] != entries[j][1] and want:
                        ctx.nontriv((pi, i, j))
            if eq[i][i] != "1":
                viol("eq-reflexive", i, i)
        # transitivity over all triples (of <=, which covers = and <)
        le = [[cmp_[i][j] in "LE" for j in range(n)] for i in range(n)]
        for i in range(n):
            li = le[i]
            for j in range(n):
                if not li[j]:
                    continue
                lj = le[j]
                for k in range(n):
                    if lj[k] and not li[k]:
                        viol("transitivity", i, j, k)
        ctx.count("triples", n * n * n)
        ctx.count("pools")
        ctx.sample({"pool_size": n, "example_entries": [e[1] for e in entries[:4]], "gc": env.get("JANET_VERIF_GC", "default")}, cap=3)

    core.pmap(do_pool, range(npools))

    # phase 1b: boxed 64-bit integers (abstract values compared by the primitive operators through their compare hook)
    core.pmap(lambda bi: boxed_pool(ctx, exe, bi), range(8 if quick else 400))

    # phase 2: symbol/keyword re-interning churn
    cpath = os.path.join(d, "churn.janet")
    open(cpath, "w").write(CHURN)
    nchurn = 24 if quick else 400

    def do_churn(ci):
        rng = random.Random(ctx.sub_seed("churn", ci))
        total = rng.choice([500, 2000, 6000, 12000])
        keep_mod = rng.choice([2, 3, 5])
        rounds = rng.choice([1, 2, 3])
        env = {}
        if ci % 2:
            env["JANET_VERIF_GC"] = "rand:%d:1/%d" % (rng.randrange(100000), rng.choice([64, 256]))
        res = core.run([exe, cpath, str(total), str(keep_mod), str(rounds), str(rng.randrange(1 << 30))], env=env, timeout=600, cpu=300)
        files = {"churn.janet": CHURN, "args.txt": "%d %d %d" % (total, keep_mod, rounds)}
        if not ctx.check_result(res, files, where="churn"):
            core.discard(res)
            return
        out = res.out.decode(errors="replace")
        core.discard(res)
        last = out.strip().splitlines()[-1] if out.strip() else ""
        if not last.startswith("churn checked="):
            ctx.violation("churn-script-failed", "churn did not complete: " + res.err.decode(errors="replace")[-400:], files)
            return
        checked = int(last.split("checked=")[1].split()[0])
        bad = int(last.split("bad=")[1])
        ctx.evals(checked)
        ctx.count("reinterned_symbols", checked)
        for k in range(min(checked, 50)):
            ctx.nontriv(("churn", ci, k))
        if bad:
            kinds = sorted(set(l.split()[1] for l in out.splitlines() if l.startswith("VIOL")))
            ctx.violation("reintern:" + "+".join(kinds), "%d of %d re-interned symbols/keywords differ from the live original (%s)" % (bad, checked, out[:300]), files)

    core.pmap(do_churn, range(nchurn))

    # gensym against names that are already interned
    d = core.case_dir()
    gp = os.path.join(d, "gensym.janet")
    prog = GENSYM_PROG % (40 if quick else 2000)
    open(gp, "w").write(prog)
    res = core.run([exe, gp], timeout=300)
    core.discard(res)
    ctx.evals()
    out = res.out.decode(errors="replace")
    files = {"gensym.janet": prog, "stdout.txt": out[-2000:]}
    if "GENSYM-DONE" not in out:
        if ctx.check_result(res, files, where="gensym"):
            ctx.violation("gensym-script-failed", "rc=%s %s" % (res.rc, res.err.decode(errors="replace")[-300:]), files)
    else:
        ctx.count("gensym_rounds", 40 if quick else 2000)
        n = int(out[out.index("GENSYM-DONE") + 12:].split()[0])
        if n:
            first = [l for l in out.splitlines() if l.startswith("G ")][:2]
            ctx.violation("gensym-collision", "%d violations of 'equal text <=> identical symbol' around gensym: %s" % (n, first), files)
