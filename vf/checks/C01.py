"""C01 — garbage collection is transparent and never frees a reachable object.

Metamorphic monitor over collection schedules: the same deterministic program is run
under JANET_VERIF_GC=never (reference), always, and seeded random subsets of the
interpreter safepoints, on the ASan+UBSan build and on the build that also relocates
the fiber stack at every frame push (JANET_DEBUG). Normalised stdout, stderr and exit
status must be identical and no sanitizer report may appear. Programs: one targeted
scenario per kind of heap edge / root (janet/gc_scenarios.janet) plus programs from the
generators of C02, C04, C05, C06, C09, C11, C12."""
import os
import random
import re

from vf import build, core

LEVEL = "exploration"

SCENARIOS = ["sc-array-tuple-elements", "sc-table-edges", "sc-struct-edges", "sc-fiber-stack-slot", "sc-args-between-push-and-call",
             "sc-frame-function-and-env", "sc-fiber-env-child-lastvalue", "sc-env-detach", "sc-funcdef-parts", "sc-parser-state", "sc-peg",
             "sc-channel", "sc-streams", "sc-timers-and-tasks", "sc-process", "sc-threads", "sc-symbols-reinterned", "sc-deep-marking",
             "sc-marshal", "sc-library-callbacks", "sc-debug-info", "sc-trace"]

ADDR = re.compile(rb"0x[0-9A-Fa-f]+")
TMP = re.compile(rb"/var/tmp/verif-run-[^/\s]+/c\d+")


def norm(b):
    b = ADDR.sub(b"0xADDR", b)
    b = TMP.sub(b"/CASE", b)
    b = b"\n".join(l for l in b.split(b"\n") if b"runtime error:" not in l and not l.startswith(b"SUMMARY: UndefinedBehaviorSanitizer"))
    return b


def generated_programs(ctx, quick):
    """(name, script) pairs produced by the generators of the other checks (small instances)."""
    progs = []
    rng = ctx.rng
    from vf.checks import C04, C05, C06, C09, C11, C12, C02
    n = 3 if quick else 40
    for i in range(n):
        r = random.Random(ctx.sub_seed("c04", i))
        h = C04.History(r, ["table", "array", "buffer"][i % 3])
        progs.append(("c04-%s-%d" % (h.kind, i), h.build(60)))
    for i in range(n):
        r = random.Random(ctx.sub_seed("c05", i))
        g = C05.Gen(r)
        body = g.body(2, 3)
        text = C05.PRELUDE + ("(def MAIN (fiber/new (fn []\n%s) :a))\n(each v [1 2 3 4 5 6] (when (fiber/can-resume? MAIN) (def r (resume MAIN v)) (log :main r (fiber/status MAIN))))\n(print (canon LOG))\n"
                              % C05.emit_block(body, 0, 2, True))
        progs.append(("c05-fibers-%d" % i, text))
    for i in range(n):
        r = random.Random(ctx.sub_seed("c06", i))
        caps, fibers = C06.gen_program(r, True)
        progs.append(("c06-channels-%d" % i, C06.emit_program(caps, fibers)))
    for i in range(max(1, n // 2)):
        r = random.Random(ctx.sub_seed("c09", i))
        lines = [C09.PRELUDE]
        for k in range(6):
            gg = C09.GraphGen(r)
            root = gg.value(r.choice([2, 3]))
            lines.append("(do\n%s\n(print (canon-graph root))\n(print (canon-graph (rt-plain root)))\n(print (canon-graph (rt-dict root))))" % gg.emit_build(root))
        p = dict(a=3, b=2, c=5, s=-1, u=7)
        for name, setup, driver in C09.BEHAVIOUR:
            if name.startswith("channel") or name == "boxed-ints" or r.random() < 0.5:
                lines.append("(do %s (def drv %s) (print (drv (rt-dict orig))) (print (drv orig)))" % (setup % p, driver % p))
        progs.append(("c09-marshal-%d" % i, "\n".join(lines) + "\n"))
    for i in range(max(1, n // 2)):
        r = random.Random(ctx.sub_seed("c11", i))
        lines = [C11.PRELUDE]
        for k in range(4):
            src = C11.g_source(r)
            lines.append('(def in%d (unhex "%s"))' % (k, src.hex()))
            cuts = C11.cuts_for(r, len(src), "split")
            lines.append('(run-feeding "f%d" in%d [%s] true %d)' % (k, k, " ".join(str(c) for c in cuts), cuts[0]))
        progs.append(("c11-parser-%d" % i, "\n".join(lines) + "\n"))
    for i in range(max(1, n // 2)):
        seeds = [ctx.sub_seed("c12", i, k) for k in range(4)]
        script, _ = C12.build_batch(ctx, seeds, True)
        progs.append(("c12-peg-%d" % i, script))
    for i in range(n):
        r = random.Random(ctx.sub_seed("c02", i))
        g = C02.Gen(r)
        forms, final = g.gen_block(2, 4)
        em = C02.Emitter()
        for f in [["def", "RESULT", [["fn", C02.B()] + forms + [final]]]]:
            em.emit(f)
            em.w("\n")
        progs.append(("c02-prog-%d" % i, C02.PRELUDE + em.text() + '\n(print (canon [RESULT LOG]))\n'))
    return progs


def run(ctx):
    asan = build.janet("asan")
    reloc = build.janet("asan-reloc")
    quick = ctx.tier == "quick"
    ctx.rule = ("program x schedule x build: 21 targeted heap-edge/root scenarios + programs from the C02/C04/C05/C06/C09/C11/C12 generators; schedules never "
                "(reference) / always / rand 1/2 / rand 1/8 (+ more seeds in thorough) on asan and always + rand on asan-reloc; a program is non-trivial only if "
                "its always-run performed >= 3 collections that freed blocks and (reloc build) >= 1 stack relocation, as counted by hook H1")
    ctx.assumptions = ["programs are deterministic functions of their text; addresses are normalised; weak tables and collector statistics are not used",
                       "the never-collect run on the ASan build is the reference"]
    scen_src = open(os.path.join(core.VERIF, "janet", "gc_scenarios.janet")).read()
    progs = []
    for s in SCENARIOS:
        progs.append((s, scen_src + "\n(%s)\n" % s))
    progs.extend(generated_programs(ctx, quick))
    sched = [("asan", asan, "always"), ("asan", asan, "rand:%d:1/2" % (ctx.seed * 7 + 1)), ("asan", asan, "rand:%d:1/8" % (ctx.seed * 7 + 2)),
             ("reloc", reloc, "always"), ("reloc", reloc, "rand:%d:1/4" % (ctx.seed * 7 + 3))]
    if not quick:
        sched += [("asan", asan, "rand:%d:1/64" % (ctx.seed * 7 + 4)), ("asan", asan, "rand:%d:1/2" % (ctx.seed * 7 + 5)), ("reloc", reloc, "rand:%d:1/16" % (ctx.seed * 7 + 6)),
                  ("reloc", reloc, "never")]
    d0 = core.case_dir()
    jobs = []
    paths = {}
    for name, text in progs:
        p = os.path.join(d0, name + ".janet")
        open(p, "w").write(text)
        paths[name] = p
    refs = {}

    def run_one(name, exe, gc):
        statsf = os.path.join(core.case_dir(), "stats.txt")
        res = core.run([exe, paths[name]], env={"JANET_VERIF_GC": gc, "JANET_VERIF_STATS_FILE": statsf}, timeout=900, cpu=800)
        stats = dict(collections=0, freed=0, relocations=0, safepoints=0)
        try:
            for line in open(statsf):
                for kv in line.split()[1:]:
                    k, v = kv.split("=")
                    stats[k] = stats.get(k, 0) + int(v)
        except OSError:
            pass
        core.discard(res)
        return res, stats

    def do_ref(i):
        name = progs[i][0]
        res, st = run_one(name, asan, "never")
        ctx.evals()
        files = {"program.janet": progs[i][1], "schedule.txt": "asan never"}
        ok = ctx.check_result(res, files, where="%s:never" % name.split("-")[0])
        refs[name] = (norm(res.out), norm(res.err), res.rc, ok)
        if name.startswith("sc-") and ok and (res.rc != 0 or res.err.strip() or b"SCENARIO ERROR" in res.out):
            raise core.HarnessError("targeted scenario %s does not run cleanly on the reference schedule: rc=%s stderr=%r" % (name, res.rc, res.err[-300:]))

    core.pmap(do_ref, range(len(progs)))
    for name, text in progs:
        if refs[name][3]:
            for flavour, exe, gc in sched:
                jobs.append((name, text, flavour, exe, gc))

    def do_job(j):
        name, text, flavour, exe, gc = jobs[j]
        res, st = run_one(name, exe, gc)
        ctx.evals()
        kind = name.split("-")[0] if not name.startswith("sc-") else name
        files = {"program.janet": text, "schedule.txt": "%s JANET_VERIF_GC=%s" % (flavour, gc), "reference_stdout.txt": refs[name][0], "observed_stdout.txt": norm(res.out),
                 "reference_stderr.txt": refs[name][1], "observed_stderr.txt": norm(res.err)}
        if not ctx.check_result(res, files, where="%s:%s:%s" % (kind, flavour, gc.split(":")[0])):
            return
        ro, re_, rc, _ = refs[name]
        ctx.count("runs:%s:%s" % (flavour, gc.split(":")[0]))
        ctx.count("collections", st["collections"])
        ctx.count("blocks_freed", st["freed"])
        ctx.count("relocations", st["relocations"])
        if gc == "always" and st["collections"] >= 3 and st["freed"] >= 1 and (flavour != "reloc" or st["relocations"] >= 1):
            ctx.nontriv((name, flavour))
        if norm(res.out) != ro or res.rc != rc or norm(res.err) != re_:
            what = "stdout" if norm(res.out) != ro else ("exit-status" if res.rc != rc else "stderr")
            ctx.violation("schedule-dependent:%s:%s:%s" % (kind, what, flavour),
                          "program %s under %s JANET_VERIF_GC=%s differs from the never-collect run in %s (exit %s vs %s)" % (name, flavour, gc, what, res.rc, rc), files)
        elif gc == "always":
            ctx.sample({"program": name, "build": flavour, "collections": st["collections"], "blocks_freed": st["freed"], "relocations": st["relocations"], "safepoints": st["safepoints"]}, cap=6)

    core.pmap(do_job, range(len(jobs)))
