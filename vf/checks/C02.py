"""C02 — compiled bytecode computes what the source program means.

Generated programs of the core language (typed generator, so no accidental type
errors) are evaluated by an independent environment-passing interpreter
(vf/model_eval.py) and by janet; the printed trace (result, order of logged side
effects, raised error value) must be identical. Every program body is embedded in
several compile contexts (top level, function body, closure, try, loop, tail /
non-tail position, with 0..300 extra live locals so far registers are needed).
Raised errors must be attributed to the line/column of the raising form."""
import os
import random

from vf import build, core
from vf.model_eval import K, B, A, S, Emitter, evaluate

LEVEL = "exploration"

PRELUDE = open(os.path.join(core.VERIF, "janet", "canon.janet")).read() + r'''
(def LOG @[])
(defn log [x] (array/push LOG x) x)
'''

NAMES = ["a", "b", "c", "d", "e", "f", "g", "h", "x", "y", "z", "acc", "tmp", "n", "m"]


class Gen:
    def __init__(self, rng, no_capture=False):
        self.rng = rng
        self.no_capture = no_capture   # functions use only their own parameters/locals and are never created inside loops
        self.fn_base = [0]
        self.in_loop = 0
        self.scopes = [{}]
        self.counter = 0
        self.features = set()
        self.in_fn = 0
        self.barrier = 0               # scopes below this index belong to forms that may have read their vars as earlier operands

    # ---- scope helpers
    def push(self):
        self.scopes.append({})

    def pop(self):
        self.scopes.pop()

    def declare(self, name, kind, extra=None):
        if kind == "var":
            extra = self.in_fn
        self.scopes[-1][name] = (kind, extra)

    def settable(self):
        """vars that may be assigned here: only those of the current function level, and only in statement position, so that
        no operand read earlier in an expression can be changed by a later sibling (janet reads a local's slot when the
        instruction runs; the property does not settle that case, so it is not generated)."""
        out = []
        for n, e in self.visible("var"):
            if e != self.in_fn:
                continue
            # innermost scope that declares n must lie inside the current operand-position block (if any)
            idx = max(i for i, sc in enumerate(self.scopes) if n in sc)
            if idx >= self.barrier:
                out.append((n, e))
        return out

    def visible(self, kind):
        seen = {}
        scopes = self.scopes
        if self.no_capture and self.in_fn > 0:
            scopes = self.scopes[self.fn_base[-1]:]
            if kind == "fn":
                return []
        for sc in scopes:
            for n, (k, e) in sc.items():
                seen[n] = (k, e)
        return [(n, e) for n, (k, e) in seen.items() if k == kind]

    def fresh(self, allow_shadow=True):
        r = self.rng
        if allow_shadow and r.random() < 0.25:
            cands = [n for sc in self.scopes[:-1] for n, (k, e) in sc.items() if k == "int"]
            if cands and len(self.scopes) > 1:
                self.features.add("shadowing")
                return r.choice(cands)
        self.counter += 1
        return "%s%d" % (r.choice(NAMES), self.counter)

    # ---- expressions
    def int_leaf(self):
        r = self.rng
        c = r.random()
        ints = self.visible("int") + self.visible("var")
        if ints and c < 0.6:
            return r.choice(ints)[0]
        return r.choice([0, 1, 2, 3, 5, 7, 10, -1, -4, 100, 127, 128, 255, 256, 1000])

    def gen_int(self, depth):
        r = self.rng
        if depth <= 0 or r.random() < 0.25:
            return self.int_leaf()
        c = r.random()
        if c < 0.22:
            op = r.choice(["+", "-", "*", "+", "-"])
            n = r.choice([2, 2, 2, 3, 1])
            args = [self.gen_int(depth - 1) for _ in range(n)]
            if op == "*":
                args = [args[0], r.choice([0, 1, 2, 3, -1])]
            return [op] + args
        if c < 0.30:
            return ["if", self.gen_cond(depth - 1), self.gen_int(depth - 1), self.gen_int(depth - 1)]
        if c < 0.36:
            return ["log", self.gen_int(depth - 1)]
        if c < 0.44:
            fns = self.visible("fn")
            if fns:
                name, (arity, kind) = r.choice(fns)
                self.features.add("call")
                if kind == "opt":
                    k = r.choice([arity - 1, arity])
                elif kind == "rest":
                    k = arity + r.choice([0, 1, 3])
                elif kind == "optrest":
                    k = arity + r.choice([0, 0, 1, 2, 3, 5])
                else:
                    k = arity
                return [name] + [self.gen_int(depth - 1) for _ in range(max(k, 0))]
            return self.int_leaf()
        if c < 0.52:
            self.push()
            n1 = self.fresh()
            e1 = self.gen_int(depth - 1)
            self.declare(n1, "int")
            body = self.gen_int(depth - 1)
            self.pop()
            self.features.add("let")
            return ["let", B(n1, e1), body]
        if c < 0.58:
            self.push()
            saved = self.barrier
            self.barrier = len(self.scopes) - 1     # a (do ...) in expression position may be a later operand of a form that already read an outer var
            forms, fin = self.gen_block(depth - 1, r.choice([1, 2]))
            self.barrier = saved
            self.pop()
            return ["do"] + forms + [fin]
        if c < 0.63:
            self.features.add("cond")
            return ["cond", self.gen_cond(depth - 1), self.gen_int(depth - 1), self.gen_cond(depth - 1), self.gen_int(depth - 1), self.gen_int(depth - 1)]
        if c < 0.68:
            self.features.add("case")
            return ["case", ["mod", self.gen_int(depth - 1), 3], 0, self.gen_int(depth - 1), 1, self.gen_int(depth - 1), self.gen_int(depth - 1)]
        if c < 0.72:
            self.features.add("and-or")
            if r.random() < 0.5:
                return ["if", [r.choice(["and", "or"]), self.gen_cond(depth - 1), self.gen_cond(depth - 1)], self.gen_int(depth - 1), self.gen_int(depth - 1)]
            return [r.choice(["and", "or"]), self.gen_int(depth - 1), self.gen_int(depth - 1)]
        if c < 0.76:
            arrs = self.visible("arr")
            if arrs:
                return ["length", r.choice(arrs)[0]]
            return self.int_leaf()
        if c < 0.81:
            # immediately applied lambda with optional/variadic params
            if self.no_capture and self.in_loop:
                return self.int_leaf()
            self.features.add("lambda")
            self.push()
            self.fn_base.append(len(self.scopes) - 1)
            self.in_fn += 1
            p1, p2 = self.fresh(False), self.fresh(False)
            self.declare(p1, "int")
            self.declare(p2, "int")
            body = self.gen_int(depth - 1)
            self.in_fn -= 1
            self.fn_base.pop()
            self.pop()
            return [["fn", B(p1, p2), body], self.gen_int(depth - 1), self.gen_int(depth - 1)]
        if c < 0.89:
            self.features.add("quasiquote")
            x = self.gen_int(depth - 1)
            return ["length", ["quasiquote", [1, ["unquote", x], ["unquote", ["splice", B(2, 3)]], K("k")]]]
        if c < 0.93:
            self.features.add("destructure-let")
            self.push()
            n1, n2, n3 = self.fresh(False), self.fresh(False), self.fresh(False)
            src = B(self.gen_int(depth - 1), self.gen_int(depth - 1), 9, 8)
            for n_ in (n1, n2):
                self.declare(n_, "int")
            body = ["+", n1, n2, ["length", n3]]
            self.pop()
            return ["let", B(B(n1, n2, "&", n3), src), body]
        if c < 0.96:
            self.features.add("if-let")
            self.push()
            n1 = self.fresh(False)
            self.declare(n1, "int")
            body = self.gen_int(depth - 1)
            self.pop()
            return ["if-let", B(n1, ["if", self.gen_cond(depth - 1), self.gen_int(depth - 1), None]), body, self.gen_int(depth - 1)]
        self.features.add("thread")
        return ["->", self.gen_int(depth - 1), ["+", 1], ["*", 2], "inc"]

    def gen_cond(self, depth):
        r = self.rng
        c = r.random()
        if depth <= 0 or c < 0.6:
            return [r.choice(["<", ">", "<=", ">=", "=", "not="]), self.gen_int(depth - 1), self.gen_int(depth - 1)]
        if c < 0.7:
            return ["not", self.gen_cond(depth - 1)]
        if c < 0.85:
            return [r.choice(["and", "or"]), self.gen_cond(depth - 1), self.gen_cond(depth - 1)]
        if c < 0.92:
            return ["even?", self.gen_int(depth - 1)]
        return r.choice([True, False, None])

    # ---- statements
    def gen_stmt(self, depth):
        r = self.rng
        c = r.random()
        if c < 0.16:
            n = self.fresh()
            e = self.gen_int(depth)
            self.declare(n, "int")
            return [["def", n, e]]
        if c < 0.28:
            n = self.fresh()
            e = self.gen_int(depth)
            self.declare(n, "var")
            self.features.add("var")
            return [["var", n, e]]
        if c < 0.38:
            vs = self.settable()
            if vs:
                return [["set", r.choice(vs)[0], self.gen_int(depth)]]
            return [["log", self.gen_int(depth)]]
        if c < 0.46:
            return [["log", self.gen_int(depth) if r.random() < 0.8 else K(r.choice(["p", "q", "r"]))]]
        if c < 0.53 and depth > 0:
            self.push()
            f1, e1 = self.gen_block(depth - 1, r.choice([1, 2]))
            self.pop()
            self.push()
            f2, e2 = self.gen_block(depth - 1, r.choice([0, 1]))
            self.pop()
            return [["if", self.gen_cond(depth - 1), ["do"] + f1 + [["log", e1]], ["do"] + f2 + [["log", e2]]]]
        if c < 0.62 and depth > 0:
            return self.gen_while(depth)
        if c < 0.70 and depth > 0:
            return self.gen_for(depth)
        if c < 0.80 and depth > 0:
            return self.gen_defn(depth)
        if c < 0.83 and depth > 0:
            return self.gen_closures_in_loop(depth)
        if c < 0.86 and depth > 0:
            return self.gen_closure_in_nested_scopes(depth)
        if c < 0.91 and depth > 0:
            return self.gen_try(depth)
        if c < 0.94:
            n = self.fresh(False)
            self.features.add("array")
            init = A(*[self.gen_int(depth) for _ in range(r.randrange(0, 4))])
            self.declare(n, "arr")
            return [["def", n, init], ["array/push", n, self.gen_int(depth)]]
        if c < 0.97:
            # destructuring def
            self.features.add("destructure-def")
            n1, n2, n3 = self.fresh(False), self.fresh(False), self.fresh(False)
            forms = [["def", B(n1, n2), B(self.gen_int(depth), self.gen_int(depth))], ["def", S((K("k"), n3)), S((K("k"), self.gen_int(depth)), (K("z"), 0))]]
            for n_ in (n1, n2, n3):
                self.declare(n_, "int")
            return forms
        return [["log", ["when", self.gen_cond(depth), self.gen_int(depth)]], ["log", ["unless", self.gen_cond(depth), self.gen_int(depth)]]]

    def gen_block(self, depth, nstmts):
        forms = []
        for _ in range(nstmts):
            forms.extend(self.gen_stmt(depth))
        return forms, self.gen_int(depth)

    def gen_while(self, depth):
        r = self.rng
        self.features.add("while")
        i = self.fresh(False)
        self.declare(i, "var")
        limit = r.choice([0, 1, 2, 3, 4])
        self.push()
        self.in_loop += 1
        body, e = self.gen_block(depth - 1, r.choice([1, 2]))
        extra = []
        if r.random() < 0.4:
            self.features.add("break")
            extra = [["when", self.gen_cond(depth - 1), ["log", K("brk")], ["break"]]]
        nested = []
        if r.random() < 0.25 and depth > 1:
            self.features.add("nested-while")
            j = self.fresh(False)
            self.declare(j, "var")
            self.push()
            inner_body, e2 = self.gen_block(depth - 2, 1)
            inner_break = [["when", self.gen_cond(depth - 2), ["break"]]] if r.random() < 0.5 else []
            self.pop()
            nested = [["var", j, 0], ["while", ["<", j, r.choice([1, 2, 3])]] + inner_body + inner_break + [["log", e2], ["++", j]]]
        self.in_loop -= 1
        self.pop()
        return [["var", i, 0], ["while", ["<", i, limit]] + body + extra + nested + [["log", e], ["++", i]]]

    def gen_for(self, depth):
        r = self.rng
        kind = r.choice(["for", "each", "loop", "seq", "loop-when", "loop-nested", "for-var-bound", "for-var-bound"])
        self.features.add(kind)
        if kind == "for-var-bound":
            # the end bound is a var that the body changes: counting loops evaluate their bounds once, before the first iteration
            nb, i2 = self.fresh(False), self.fresh(False)
            k0 = r.choice([3, 4, 5, 6])
            form = r.choice(["for", "loop", "seq", "loop-down"])
            step = r.choice([["--", nb], ["set", nb, ["-", nb, 2]], ["++", nb]])
            if step[0] == "++":
                # a growing bound would never end if it were re-read: cap it
                step = ["if", ["<", nb, 40], ["++", nb]]
            out = [["var", nb, k0]]
            if form == "for":
                out.append(["for", i2, 0, nb, ["log", i2], step])
            elif form == "loop":
                out.append(["loop", B(i2, K("range"), B(0, nb)), ["log", i2], step])
            elif form == "loop-down":
                out.append(["var", nb + "lo", 0])
                out.append(["loop", B(i2, K("down-to"), B(k0, nb + "lo")), ["log", i2], ["if", ["<", nb + "lo", 3], ["++", nb + "lo"]]])
            else:
                out.append(["log", ["length", ["seq", B(i2, K("range"), B(0, nb)), step, i2]]])
            out.append(["log", nb])
            self.declare(nb, "var")
            return out
        i = self.fresh(False)
        self.push()
        self.declare(i, "int")
        self.in_loop += 1
        cond = self.gen_cond(depth - 1)
        body, e = self.gen_block(depth - 1, r.choice([0, 1]))
        self.in_loop -= 1
        self.pop()
        lo, hi = r.choice([0, 1, 2]), r.choice([0, 2, 3, 4])
        if kind == "for":
            return [["for", i, lo, hi] + body + [["log", e]]]
        if kind == "each":
            return [["each", i, B(*[r.choice([1, 2, 3, 5, 8]) for _ in range(r.randrange(0, 4))])] + body + [["log", e]]]
        if kind == "loop":
            return [["loop", B(i, K("range"), B(lo, hi))] + body + [["log", e]]]
        if kind == "loop-when":
            return [["loop", B(i, K("range"), B(lo, hi), K("when"), cond)] + body + [["log", e]]]
        if kind == "loop-nested":
            j = self.fresh(False)
            return [["loop", B(j, K("range"), B(0, 2), i, K("in"), B(4, 6))] + body + [["log", ["+", e, j]]]]
        n = self.fresh(False)
        self.declare(n, "arr")
        return [["def", n, ["seq", B(i, K("range"), B(lo, hi))] + body + [e]], ["log", ["length", n]]]

    def gen_defn(self, depth):
        r = self.rng
        kind = r.choice(["plain", "plain", "opt", "rest", "rec", "keys", "named", "destr", "optrest"])
        if self.no_capture and (self.in_loop or kind == "rec"):
            return [["log", self.gen_int(depth - 1)]]
        self.features.add("defn-" + kind)
        name = "fn%d" % self.counter
        self.counter += 1
        self.push()
        self.fn_base.append(len(self.scopes) - 1)
        self.in_fn += 1
        if kind == "rec":
            p = self.fresh(False)
            self.declare(p, "int")
            self.declare(name, "fn", (1, "plain"))
            body = [["if", ["<", p, 1], self.gen_int(0), ["+", ["log", p], [name, ["-", p, 1]]]]]
            params = B(p)
            self.in_fn -= 1
            self.fn_base.pop()
            self.pop()
            self.declare(name, "fn-rec", (1, "plain"))
            return [["defn", name, params] + body, ["log", [name, r.choice([0, 1, 3, 5])]]]
        ps = [self.fresh(False) for _ in range(r.choice([1, 2, 3]))]
        for p in ps:
            self.declare(p, "int")
        arity = len(ps)
        if kind == "opt":
            o = self.fresh(False)
            params = B(*(ps + ["&opt", o]))
            stmts, e = self.gen_block(depth - 1, r.choice([0, 1]))
            body = stmts + [["+", e, ["or", o, 50]]]
            arity += 1
        elif kind == "optrest":
            o1, o2, o = self.fresh(False), self.fresh(False), self.fresh(False)
            params = B(*(ps + ["&opt", o1, o2, "&", o]))
            stmts, e = self.gen_block(depth - 1, r.choice([0, 1]))
            body = stmts + [["+", e, ["or", o1, 50], ["or", o2, 7], ["length", o]]]
        elif kind == "rest":
            o = self.fresh(False)
            params = B(*(ps + ["&", o]))
            stmts, e = self.gen_block(depth - 1, r.choice([0, 1]))
            body = stmts + [["+", e, ["length", o]]]
        elif kind == "keys":
            params = B("&keys", S((K("u"), "ku"), (K("v"), "kv")))
            body = [["+", ["or", "ku", 1], ["or", "kv", 2]]]
            self.in_fn -= 1
            self.fn_base.pop()
            self.pop()
            return [["defn", name, params] + body, ["log", [name, K("u"), self.gen_int(depth - 1)]], ["log", [name, K("v"), 7, K("u"), 8]], ["log", [name]]]
        elif kind == "named":
            params = B(ps[0], "&named", "nu", "nv")
            body = [["+", ps[0], ["or", "nu", 10], ["or", "nv", 20]]]
            self.in_fn -= 1
            self.fn_base.pop()
            self.pop()
            return [["defn", name, params] + body, ["log", [name, 1, K("nv"), self.gen_int(depth - 1)]], ["log", [name, 2]]]
        elif kind == "destr":
            params = B(B("da", "db"), S((K("k"), "dk")))
            body = [["+", "da", "db", "dk"]]
            self.in_fn -= 1
            self.fn_base.pop()
            self.pop()
            return [["defn", name, params] + body, ["log", [name, B(self.gen_int(depth - 1), 2), S((K("k"), 3))]]]
        else:
            params = B(*ps)
            stmts, e = self.gen_block(depth - 1, r.choice([0, 1, 2]))
            body = stmts + [e]
        self.in_fn -= 1
        self.fn_base.pop()
        self.pop()
        self.declare(name, "fn", (arity, {"opt": "opt", "rest": "rest", "optrest": "optrest"}.get(kind, "plain")))
        out = [["defn", name, params] + body]
        if kind in ("optrest", "opt", "rest") and not self.no_capture:
            # a caller that first makes a call with many arguments (stale values above the frame) and then tail-calls with the optional ones omitted
            tname = "fn%d" % self.counter
            self.counter += 1
            t1 = self.fresh(False)
            req = [t1] * len(ps)
            self.features.add("tailcall-omitting-optionals")
            out.append(["defn", tname, B(t1), ["log", ["length", A(901, 902, 903, 904, 905, t1)]], [name] + req])
            out.append(["log", [tname, r.choice([0, 3, 128])]])
            out.append(["log", ["+", 1, [tname, 4]]])
        return out

    def gen_closure_in_nested_scopes(self, depth):
        """A closure created two to four block scopes below the function body, capturing locals of several of those scopes; more locals are
        defined afterwards (their registers must not alias the captured ones) and only then is the closure called."""
        r = self.rng
        if self.no_capture:
            return [["log", self.gen_int(depth - 1)]]
        self.features.add("closure-in-nested-scopes")
        name = "fn%d" % self.counter
        self.counter += 1
        d = self.fresh(False)
        caps = []
        levels = r.choice([2, 2, 3, 4])
        self.push()
        # innermost expression: the closure over everything captured so far
        wrappers = []
        for lv in range(levels):
            v = self.fresh(False)
            init = self.gen_int(0)
            caps.append(v)
            self.declare(v, "int")
            wrappers.append((r.choice(["let", "do-def", "if-let", "when-let"]), v, init))
        mutable = r.random() < 0.5
        if mutable:
            mv = self.fresh(False)
            body_fn = ["do", ["var", mv, ["+"] + caps], ["fn", B(d), ["+=", mv, d], ["+", mv] + caps]]
        else:
            body_fn = ["fn", B(d), ["+", d] + caps]
        expr = body_fn
        for kind, v, init in reversed(wrappers):
            if kind == "let":
                expr = ["let", B(v, init), expr]
            elif kind == "do-def":
                expr = ["do", ["def", v, init], expr]
            elif kind == "if-let":
                expr = ["if", ["<", -1000, init], ["let", B(v, init), expr], ["fn", B(d), -1]]
            else:
                expr = ["when", True, ["let", B(v, init), expr]]
        self.pop()
        out = [["def", name, expr]]
        # locals defined after the closure exists
        for _ in range(r.choice([1, 2, 4])):
            o = self.fresh(False)
            out.append(["def", o, self.gen_int(0)])
            self.declare(o, "int")
            out.append(["log", o])
        self.declare(name, "fn", (1, "plain"))
        out.append(["log", [name, r.choice([0, 1, 7])]])
        out.append(["log", [name, 2]])
        return out

    def gen_closures_in_loop(self, depth):
        r = self.rng
        if self.no_capture:
            return [["log", self.gen_int(depth - 1)]]
        self.features.add("closures-in-loop")
        fs = "fs%d" % self.counter
        self.counter += 1
        i, j, d = self.fresh(False), self.fresh(False), self.fresh(False)
        k = r.choice([1, 2, 3])
        nested = r.random() < 0.4
        if nested:
            self.features.add("closure-in-nested-loop")
            inner = self.fresh(False)
            make = ["for", i, 0, 3, ["var", j, ["*", i, k]], ["for", inner, 0, 2, ["array/push", fs, ["fn", B(d), ["+=", j, d], ["+", ["*", 100, i], ["*", 10, inner], j]]]]]
            calls = [["log", [["get", fs, idx], r.choice([1, 5])]] for idx in (0, 3, 5, 0, 2)]
        else:
            make = ["for", i, 0, 3, ["var", j, ["*", i, k]], ["array/push", fs, ["fn", B(d), ["+=", j, d], ["+", ["*", 100, i], j]]]]
            calls = [["log", [["get", fs, idx], r.choice([1, 5])]] for idx in (0, 2, 0, 1)]
        return [["def", fs, A()], make] + calls

    def gen_try(self, depth):
        r = self.rng
        self.features.add("try")
        if self.no_capture and self.in_loop:
            return [["log", self.gen_int(depth - 1)]]
        if self.no_capture:
            # the body of try/defer is a closure: in no-capture mode it may only use names it declares itself
            self.push()
            self.fn_base.append(len(self.scopes) - 1)
            self.in_fn += 1
            cond = self.gen_cond(0)
        else:
            cond = self.gen_cond(depth - 1)      # uses only names visible outside the try body
            self.push()
        body, e = self.gen_block(depth - 1, r.choice([1, 2]))
        raise_at = r.randrange(len(body) + 1)
        body.insert(raise_at, ["when", cond, ["error", K(r.choice(["e1", "e2"]))]])
        if self.no_capture:
            self.in_fn -= 1
            self.fn_base.pop()
        self.pop()
        forms = [["log", ["try", ["do"] + body + [e], [B("err"), ["log", K("caught")], ["log", "err"], -1]]]]
        if r.random() < 0.4:
            self.features.add("defer")
            forms = [["log", ["try", ["defer", ["log", K("cleanup")]] + body + [e], [B("err"), ["log", "err"], -2]]]]
        return forms


# ---- contexts ------------------------------------------------------------------

def contexts(forms, final, rng, pads):
    """Yield (context name, top-level form list) embedding the same block."""
    yield "top", list(forms) + [["def", "RESULT", final]]
    yield "fn-body", [["def", "RESULT", [["fn", B()] + forms + [final]]]]
    yield "named-tail", [["defn", "ctx-tail", B()] + forms + [final], ["def", "RESULT", ["ctx-tail"]]]
    yield "non-tail", [["def", "RESULT", ["identity", [["fn", B()] + forms + [final]]]]]
    yield "closure", [["defn", "mk-ctx", B(), ["fn", B()] + forms + [final]], ["def", "RESULT", [["mk-ctx"]]]]
    yield "try", [["def", "RESULT", ["try", ["do"] + forms + [final], [B("ctxerr"), B(K("caught"), "ctxerr")]]]]
    yield "loop-body", [["var", "RESULT", None], ["for", "ctxi", 0, 2, ["set", "RESULT", ["do"] + forms + [final]]]]
    yield "dropped", [[["fn", B()] + forms + [final, None]], ["def", "RESULT", K("dropped")]]
    for k in pads:
        padnames = ["pad%d" % i for i in range(k)]
        padforms = [["def", p, i] for i, p in enumerate(padnames)]
        keep = ["+"] + padnames[:250] if padnames else 0
        keep2 = ["+"] + padnames[250:] if len(padnames) > 250 else 0
        yield "pads%d" % k, [["def", "RESULT", [["fn", B()] + padforms + forms + [["def", "ctxr", final], ["log", ["+", keep, keep2]], "ctxr"]]]]


ERRPOS = r'''
(def f (fiber/new (fn [] %s) :e))
(def r (resume f))
(def fr (first (debug/stack f)))
(print "errpos " (canon r) " " (fr :source-line) " " (fr :source-column))
'''

TAILCALLS = r'''
(defn lp [n acc] (if (= n 0) acc (lp (- n 1) (+ acc 1))))
(var od? nil)
(defn ev? [n] (if (= n 0) true (od? (- n 1))))
(set od? (fn [n] (if (= n 0) false (ev? (- n 1)))))
(print "tail " (lp 300000 0) " " (ev? 100001) " " ((fn self [n] (cond (= n 0) :z (self (- n 1)))) 200000))
'''


def run(ctx):
    exe = build.janet("plain")
    quick = ctx.tier == "quick"
    nprog = 900 if quick else 25000
    per = 10
    ctx.rule = ("typed random programs (def/var/set/do/if/while with break and nested while/fn/closures created in (nested) loops/shadowing/recursion, "
                "destructuring, &opt & &keys &named parameters, let cond case and or for each loop(:range :in :when) seq try defer if-let -> quasiquote) "
                "each embedded in 8 contexts + 0/120/250/256/300 extra live locals; traces compared with the reference interpreter; error line/column "
                "attribution checked on raising forms at known positions; non-trivial = program with a binding form, a control form and an effect; "
                "distinct by program text")
    ctx.assumptions = ["reference semantics = vf/model_eval.py, an environment-passing interpreter of the documented evaluation rules",
                       "programs are type-correct by construction; integers stay far below 2^53"]
    nb = (nprog + per - 1) // per

    def do_batch(bi):
        rng = random.Random(ctx.sub_seed("p", bi))
        d = core.case_dir()
        jobs = []
        script_parts = []
        for pi in range(per):
            pads = rng.choice([[0], [120], [250], [256], [300], [120, 256]]) if rng.random() < (0.5 if quick else 0.8) else []
            # closures cannot capture locals living in slots > 255 (known finding, probed separately): with many extra locals the
            # generated block avoids captures so that the other far-register paths stay observable
            g = Gen(rng, no_capture=bool(pads) and max(pads) >= 120)
            forms, final = g.gen_block(rng.choice([1, 2, 2, 3]), rng.choice([2, 3, 4, 6]))
            for cname, top in contexts(forms, final, rng, pads):
                try:
                    want = evaluate(top)
                except (RuntimeError, RecursionError, NameError, NotImplementedError, TypeError, AttributeError, IndexError, KeyError, ZeroDivisionError) as ex:
                    ctx.count("model_skipped:" + type(ex).__name__)
                    continue
                em = Emitter()
                for f in top:
                    em.emit(f)
                    em.w("\n")
                jobs.append((pi, cname, em.text(), want, sorted(g.features)))
        # each (program, context) is its own file so global definitions do not interfere
        def run_job(j):
            pi, cname, text, want, feats = j
            path = os.path.join(d, "p%d_%s.janet" % (pi, cname))
            body = PRELUDE + text + '\n(print "ok " (canon [RESULT LOG]))\n'
            open(path, "w").write(body)
            return path
        paths = [run_job(j) for j in jobs]
        # run all files of this batch in one janet process each (cheap: ~3 ms)
        for j, path in zip(jobs, paths):
            pi, cname, text, want, feats = j
            res = core.run([exe, path], timeout=60, cpu=30)
            core.discard(res)
            ctx.evals()
            files = {"program.janet": open(path).read(), "expected.txt": want}
            if not ctx.check_result(res, files, where="program"):
                continue
            out = res.out.decode(errors="replace").strip()
            err = res.err.decode(errors="replace")
            if want.startswith("err "):
                # uncaught error at top level: janet prints "error: <value>" and exits 1
                got = "err" if res.rc != 0 and "error:" in err else out
                if got != "err":
                    ctx.violation("error-expected:%s" % cname, "program should raise %s but printed %r" % (want[:80], out[:120]), files)
                continue
            ctx.count("ctx:" + cname)
            if len(feats) >= 3:
                ctx.nontriv(hash(text))
            if out != want:
                kind = "raised" if res.rc != 0 else "trace"
                ctx.violation("%s-differs:%s:%s" % (kind, cname, "+".join(f for f in feats if f in ("closures-in-loop", "closure-in-nested-loop", "break", "nested-while", "try", "defer", "quasiquote"))[:60]),
                              "context %s: janet printed %r (stderr %r), reference %r" % (cname, out[:300], err[-200:], want[:300]), files)
            else:
                ctx.sample({"context": cname, "features": feats[:8], "trace": out[:100]}, cap=4)

    core.pmap(do_batch, range(nb))

    # ---- error position attribution
    def errpos(i):
        rng = random.Random(ctx.sub_seed("e", i))
        k = rng.choice([0, 0, 120, 256, 300])
        g = Gen(rng, no_capture=k >= 120)
        forms, final = g.gen_block(1, rng.choice([1, 2, 3]))
        pos = rng.randrange(len(forms) + 1)
        val = K(rng.choice(["boom", "bang"]))
        raising = rng.choice(["error", "error", "arith", "arith", "index", "length"])
        if raising == "error":
            forms.insert(pos, ["MARK", "err", ["error", val]])
        else:
            # errors raised by the interpreter itself (slow paths of specialised instructions) on operands held in locals
            ea, eb = "ea%d" % i, "eb%d" % i
            rf = {"arith": [rng.choice(["+", "-", "*", "/"]), ea, eb], "index": ["in", eb + "t", 7], "length": ["length", eb]}[raising]
            forms.insert(pos, ["MARK", "err", rf])
            forms.insert(pos, ["log", ["+", eb, 1]])          # an ordinary call just before: its position must not be reported instead
            forms.insert(0, ["def", eb + "t", B(1, 2)])
            forms.insert(0, ["def", eb, rng.choice([1, 2])])
            forms.insert(0, ["def", ea, K("not-a-number")])
            val = None
        padforms = [["def", "pad%d" % q, q] for q in range(k)]
        keep = [["log", ["+"] + ["pad%d" % q for q in range(min(k, 250))]]] if k else []
        body = padforms + forms + keep + [final]
        em = Emitter()
        em.w(PRELUDE)
        em.w("(def f (fiber/new (fn []\n")
        for fm in body:
            em.emit(fm)
            em.w("\n")
        em.w(") :e))\n(def r (resume f))\n(def fr (first (debug/stack f)))\n(print \"errpos \" (canon r) \" \" (fr :source-line) \" \" (fr :source-column))\n")
        d = core.case_dir()
        path = os.path.join(d, "errpos.janet")
        open(path, "w").write(em.text())
        res = core.run([exe, path], timeout=60)
        core.discard(res)
        ctx.evals()
        files = {"program.janet": em.text()}
        if not ctx.check_result(res, files, where="errpos"):
            return
        out = res.out.decode(errors="replace").strip().splitlines()
        line = [l for l in out if l.startswith("errpos ")]
        if not line:
            # an earlier generated form may legitimately raise first only if it is an explicit error; generator emits none
            ctx.violation("errpos-no-output", "no errpos line; stderr %s" % res.err.decode(errors="replace")[-300:], files)
            return
        parts = line[0].split(" ")
        want_line, want_col = em.marks["err"]
        ctx.count("errpos_cases")
        ctx.nontriv(("errpos", i))
        if val is not None and parts[1] != "k" + str(val).encode().hex():
            ctx.violation("errpos-wrong-value", "raised value %s, expected %s" % (parts[1], val), files)
        elif (int(parts[2]), int(parts[3])) != (want_line, want_col):
            ctx.violation("errpos-wrong-position:pads%d" % k, "error attributed to line %s column %s, the raising form is at line %d column %d" % (parts[2], parts[3], want_line, want_col), files)
    core.pmap(errpos, range(300 if quick else 6000))

    # ---- probe of a recorded defect: closures capturing locals that live in far slots
    FAR_UPVALUE = {
        "read": "(def x :captured) (def g (fn [] x)) %s (g)",
        "write": "(var x 1) (def g (fn [] (++ x))) %s (g) (g) x",
        "loop-closure": "(var total 0) (def fs @[]) (for i 0 3 (array/push fs (fn [] (+= total i)))) %s (each f fs (f)) total",
        "try-body": "(def x 7) %s (try (+ x 1) ([e] :err))",
    }
    FAR_EXPECT = {"read": "k6361707475726564", "write": "3", "loop-closure": "3", "try-body": "8"}
    for name, body in FAR_UPVALUE.items():
        pads = " ".join("(def pad%d %d)" % (i, i) for i in range(300))
        use = "(identity (+ %s))" % " ".join("pad%d" % i for i in range(250))
        prog = PRELUDE + "(defn t [] %s %s)\n(print (canon (t)))\n" % (pads, body % use)
        d = core.case_dir()
        path = os.path.join(d, "far.janet")
        open(path, "w").write(prog)
        res = core.run([exe, path], timeout=60)
        core.discard(res)
        ctx.evals()
        if ctx.check_result(res, {"program.janet": prog}, where="far-upvalue"):
            got = res.out.decode(errors="replace").strip()
            if got != FAR_EXPECT[name]:
                ctx.violation("far-upvalue:" + name, "closure capturing a local in a slot > 255: got %r, expected %r" % (got[:80], FAR_EXPECT[name]), {"program.janet": prog})

    # ---- tail calls of great depth
    d = core.case_dir()
    path = os.path.join(d, "tail.janet")
    open(path, "w").write(TAILCALLS)
    res = core.run([exe, path], timeout=120)
    core.discard(res)
    ctx.evals()
    if ctx.check_result(res, {"program.janet": TAILCALLS}, where="tail"):
        if res.out.decode().strip() != "tail 300000 false z":
            ctx.violation("tail-calls", "deep tail calls gave %r %r" % (res.out[-100:], res.err[-200:]), {"program.janet": TAILCALLS})


def repr_janet(s):
    from vf.canon import jbytes
    return jbytes(s.encode())
