"""C13 — number text conversion: exact when possible, never off by more than an ulp.

Oracle: Python exact rationals (fractions.Fraction) built together with each
literal; doubles compared by their 8 raw bytes (transported as hex produced by
buffer/push-float64, a memcpy, so neither printer nor marshaller is trusted)."""
import math
import os
import struct
from fractions import Fraction

from vf import build, core

LEVEL = "exploration"
DIGITS = "0123456789abcdefghijklmnopqrstuvwxyz"

DRIVER = r'''
(def lines (string/split "\n" (slurp (get (dyn :args) 1))))
(defn hex8 [x] (def b @"") (buffer/push-float64 b :be x) (string/join (map |(string/format "%02x" $) b)))
(defn hexs [s] (string/join (map |(string/format "%02x" $) s)))
(each line lines
  (when (> (length line) 0)
    (def kind (string/slice line 0 1))
    (def arg (string/slice line 2))
    (case kind
      "L" (let [v (scan-number arg)] (print (if (nil? v) "nil" (if (number? v) (hex8 v) "notnum"))))
      "P" (let [v (try (parse arg) ([e] :err))] (print (if (number? v) (hex8 v) (string "other:" (type v)))))
      "D" (let [bits @"\xC8"]
            (loop [i :down-to [7 0]] (buffer/push-byte bits (scan-number (string "0x" (string/slice arg (* 2 i) (+ 2 (* 2 i)))))))
            # rebuild the double from raw bytes without going through text
            (def f (ffi-free-double bits))
            (def t17 (string/format "%.17g" f))
            (def tj (string/format "%j" f))
            (def ts (string f))
            (def r17 (scan-number t17))
            (def rj (try (parse tj) ([e] nil)))
            (def rs (scan-number ts))
            (print (hex8 f) " " (if (number? r17) (hex8 r17) "nil") " " (if (number? rj) (hex8 rj) "nil") " "
                   (if (number? rs) (hex8 rs) "nil") " " (hexs t17) " " (hexs tj) " " (hexs ts)))
      "I" (let [v (scan-number arg)]
            (print (hexs (string v)) " " (hexs (string/format "%j" v)) " " (hexs (describe v)) " " (hexs (string/format "%d" v)) " " (hexs (string/format "%v" v))))
      "S" (let [r (protect (int/s64 arg))] (print (if (r 0) (string "ok " (string (r 1)) " " (type (r 1))) "err")))
      "U" (let [r (protect (int/u64 arg))] (print (if (r 0) (string "ok " (string (r 1)) " " (type (r 1))) "err")))
      "Q" (let [r (protect (parse arg))] (print (if (r 0) (string "ok " (string (r 1)) " " (type (r 1))) "err")))
      (print "?"))))
'''
# doubles are rebuilt from raw bytes by unmarshal of the 9-byte real image (LB_REAL=200 + 8 bytes LE)
DRIVER = DRIVER.replace("(ffi-free-double bits)", "(unmarshal bits)")


def dbits(x):
    return struct.pack(">d", x).hex()


def from_bits(h):
    return struct.unpack(">d", bytes.fromhex(h))[0]


DBL_MAX = Fraction(2) ** 1024 - Fraction(2) ** 971


def acceptable(exact):
    """Set of acceptable doubles (as hex bits) for an exact rational value."""
    neg = exact < 0
    a = -exact if neg else exact
    if a == 0:
        return {dbits(-0.0), dbits(0.0)} if neg else {dbits(0.0), dbits(-0.0)}, True
    res = set()
    exactly = False
    if a > DBL_MAX:
        res = {float('inf'), float(int(DBL_MAX))}
    else:
        # locate lo <= a <= hi among doubles using exact comparisons
        try:
            approx = a.numerator / a.denominator
        except OverflowError:
            approx = float(int(DBL_MAX))
        lo = approx
        while Fraction(lo) > a:
            lo = math.nextafter(lo, 0.0)
        while True:
            nx = math.nextafter(lo, math.inf)
            if nx != math.inf and Fraction(nx) <= a:
                lo = nx
            else:
                break
        if Fraction(lo) == a:
            res = {lo}
            exactly = True
        else:
            res = {lo, math.nextafter(lo, math.inf)}
    out = set()
    for r in res:
        out.add(dbits(-r if neg else r))
    return out, exactly


def gen_digits(rng, radix, n):
    return "".join(DIGITS[rng.randrange(radix)] for _ in range(n))


def with_underscores(rng, s):
    if len(s) < 2 or rng.random() < 0.7:
        return s
    i = rng.randrange(1, len(s))
    return s[:i] + "_" + s[i:]


def make_literal(rng):
    """Return (text, exact Fraction)."""
    style = rng.choice(["dec", "dec", "dec", "hex", "radix", "hexp", "near", "near", "edge"])
    sign = rng.choice(["", "", "-", "+"])
    if style == "near":
        return near_literal(rng, sign)
    if style == "edge":
        return edge_literal(rng, sign)
    if style == "dec":
        radix, prefix = 10, ""
    elif style in ("hex", "hexp"):
        radix, prefix = 16, "0x"
    else:
        radix = rng.randrange(2, 37)
        prefix = "%dr" % radix
    ni = rng.choice([0, 1, 1, 2, 3, 8, 17, 18, 25, 40, rng.randrange(1, 600) if rng.random() < 0.1 else 5])
    nf = rng.choice([0, 0, 1, 2, 5, 17, 30, rng.randrange(1, 400) if rng.random() < 0.1 else 3])
    if ni == 0 and nf == 0:
        ni = 1
    ip = gen_digits(rng, radix, ni)
    fp = gen_digits(rng, radix, nf)
    if rng.random() < 0.2:
        ip = "0" * rng.randrange(1, 4) + ip
    if rng.random() < 0.2 and fp:
        fp = fp + "0" * rng.randrange(1, 5)
    if rng.random() < 0.1 and fp:
        fp = "0" * rng.randrange(1, 30) + fp
    mant = int(ip + fp, radix) if (ip + fp) else 0
    value = Fraction(mant, 1) / (Fraction(radix) ** len(fp))
    body = with_underscores(rng, ip) if ip else ""
    if fp or rng.random() < 0.1:
        body += "." + with_underscores(rng, fp)
    # case: digits case-insensitive, but 'e'/'E' only ambiguous for radix 10 (no letters there)
    if radix > 10 and rng.random() < 0.3:
        body = body.upper()
    exp_txt = ""
    if rng.random() < 0.6:
        if style == "hexp":
            e = rng.choice([0, 1, -1, 10, -10, 52, 53, -1022, -1074, -1075, 1023, 1024, rng.randrange(-1200, 1200)])
            exp_txt = rng.choice("pP") + ("%+d" % e if rng.random() < 0.5 else str(e))
            value = value * (Fraction(2) ** e)
        else:
            lim = int(1100 / math.log10(radix)) if radix > 1 else 1100
            e = rng.choice([0, 1, -1, 5, -5, 22, 23, -22, lim // 3, -lim // 3, rng.randrange(-lim, lim), rng.randrange(-30, 30)])
            marker = "&" if (radix != 10 or rng.random() < 0.2) else rng.choice("eE")
            # exponent digits are written in the literal's own radix
            ae = abs(e)
            ds = ""
            if ae == 0:
                ds = "0"
            while ae:
                ds = DIGITS[ae % radix] + ds
                ae //= radix
            if rng.random() < 0.2:
                ds = "0" * rng.randrange(1, 3) + ds
            exp_txt = marker + ("-" if e < 0 else ("+" if rng.random() < 0.3 else "")) + ds
            value = value * (Fraction(radix) ** e)
    text = sign + prefix + body + exp_txt
    if sign == "-":
        value = -value
    return text, value


def frac_to_decimal(fr, extra_digits):
    """Exact decimal expansion of a dyadic rational (denominator power of two), or truncated."""
    n, d = fr.numerator, fr.denominator
    ip = n // d
    rem = n - ip * d
    digs = []
    k = 0
    while rem and k < extra_digits:
        rem *= 10
        digs.append(str(rem // d))
        rem %= d
        k += 1
    return str(ip), "".join(digs), rem == 0


def near_literal(rng, sign):
    """Decimal literal at or next to a halfway point between adjacent doubles, or at a double."""
    kind = rng.random()
    if kind < 0.3:
        e = rng.randrange(-1074, 1023)
        d = math.ldexp(1.0, e) if e >= -1074 else 5e-324
        d = math.ldexp(rng.choice([1.0, 1.0 + 2 ** -52, 2.0 - 2 ** -52, 1.5]), max(e, -1022))
    else:
        bits = rng.getrandbits(64) & 0x7FFFFFFFFFFFFFFF
        d = struct.unpack(">d", struct.pack(">Q", bits))[0]
        if math.isnan(d) or math.isinf(d):
            d = 1.0
    if rng.random() < 0.2:
        d = rng.choice([5e-324, 2.2250738585072014e-308, 2.225073858507201e-308, 1.7976931348623157e308, 9007199254740992.0, 9007199254740993.0, 0.1, 1e23, 8.5e-322])
    nxt = math.nextafter(d, math.inf)
    if nxt == math.inf:
        mid = (Fraction(d) + Fraction(2) ** 1024) / 2
    else:
        mid = (Fraction(d) + Fraction(nxt)) / 2
    target = rng.choice([mid, mid, Fraction(d)])
    ip, fp, exact = frac_to_decimal(target, 1100)
    digits = ip + fp
    pointpos = len(ip)
    # tweak: exactly the tie, or +-1 in a far digit, or extra trailing digits
    mode = rng.choice(["tie", "up", "down", "trunc"])
    if mode == "up":
        digits = digits + "0" * rng.randrange(0, 5) + "1"
    elif mode == "down" and len(digits) > 1 and digits.strip("0"):
        # subtract one unit in the last place of the expansion
        val = int(digits) - 1
        digits2 = str(val).rjust(len(digits), "0")
        digits = digits2 + "9" * rng.randrange(0, 4)
    elif mode == "trunc" and len(digits) > 20:
        keep = rng.randrange(17, min(len(digits), 60))
        digits = digits[:max(keep, pointpos)]
    ip2, fp2 = digits[:pointpos], digits[pointpos:]
    value = Fraction(int(ip2 + fp2 or "0"), 1) / (Fraction(10) ** len(fp2))
    # optionally express with an exponent
    text_body = (ip2 or "0") + ("." + fp2 if fp2 else "")
    if rng.random() < 0.4:
        shift = rng.randrange(-40, 40)
        text_body += "e%d" % shift
        value = value * (Fraction(10) ** shift)
    if sign == "-":
        value = -value
    return sign + text_body, value


def edge_literal(rng, sign):
    cases = [
        ("1e308", Fraction(10) ** 308), ("1.7976931348623157e308", Fraction(17976931348623157) * Fraction(10) ** 292),
        ("1.7976931348623158e308", Fraction(17976931348623158) * Fraction(10) ** 292),
        ("1.7976931348623159e308", Fraction(17976931348623159) * Fraction(10) ** 292),
        ("1e309", Fraction(10) ** 309), ("1e-324", Fraction(1, 10 ** 324)), ("2.4703282292062327e-324", Fraction(24703282292062327, 10 ** 340)),
        ("2.4703282292062328e-324", Fraction(24703282292062328, 10 ** 340)), ("4.9e-324", Fraction(49, 10 ** 325)),
        ("2.2250738585072011e-308", Fraction(22250738585072011, 10 ** 324)), ("0", Fraction(0)), ("0.0", Fraction(0)),
        ("0e10", Fraction(0)), ("00.00e-5", Fraction(0)), (".5", Fraction(1, 2)), ("5.", Fraction(5)),
        ("0x.8", Fraction(1, 2)), ("0x1p-1074", Fraction(1, 2 ** 1074)), ("0x1p-1075", Fraction(1, 2 ** 1075)),
        ("0x1.fffffffffffffp1023", Fraction(2 ** 53 - 1, 2 ** 52) * 2 ** 1023), ("0x1.fffffffffffff8p1023", Fraction(2 ** 54 - 1, 2 ** 53) * 2 ** 1023),
        ("0x1p1024", Fraction(2) ** 1024), ("2r1&1111111111", Fraction(2) ** 1023), ("36rz", Fraction(35)),
        ("9007199254740993", Fraction(2 ** 53 + 1)), ("9007199254740995", Fraction(2 ** 53 + 3)),
        ("1" + "0" * 400 + "e-400", Fraction(1)), ("0." + "0" * 400 + "1e401", Fraction(1)),
        ("1e99999999999", None), ("1e-99999999999", None),
    ]
    t, v = rng.choice(cases)
    if v is None:
        big = t.startswith("1e9")
        v = Fraction(10) ** 5000 if big else Fraction(1, 10 ** 5000)
    if sign == "-":
        v = -v
    return sign + t, v


def gen_double(rng):
    k = rng.random()
    if k < 0.5:
        bits = rng.getrandbits(64)
    elif k < 0.7:
        e = rng.randrange(0, 2047)
        m = rng.choice([0, 1, (1 << 52) - 1, 1 << 51, rng.getrandbits(52)])
        bits = (rng.getrandbits(1) << 63) | (e << 52) | m
    elif k < 0.85:
        bits = (rng.getrandbits(1) << 63) | rng.choice([1, 2, (1 << 52) - 1, rng.getrandbits(52), rng.getrandbits(20)])
    else:
        v = rng.choice([0.1, 0.2, 0.3, 1e21, 1e22, 1e23, 123456789.125, 5e-324, 1.7976931348623157e308, 2.0 ** 53, 2.0 ** 53 - 1,
                        float(rng.randrange(-2 ** 53, 2 ** 53)), rng.random(), rng.random() * 10 ** rng.randrange(-300, 300)])
        bits = struct.unpack(">Q", struct.pack(">d", v))[0]
    d = struct.unpack(">d", struct.pack(">Q", bits))[0]
    if math.isnan(d) or math.isinf(d):
        return 1.0
    return d


def int64_cases(rng):
    """(kind, text, expected) expected: ('ok', value) or 'err' or None (= unchecked)."""
    B = [0, 1, -1, 127, 128, 255, 256, 2 ** 31 - 1, 2 ** 31, 2 ** 32, 2 ** 53, 2 ** 53 + 1, 2 ** 63 - 2, 2 ** 63 - 1, 2 ** 63, 2 ** 63 + 1,
         2 ** 64 - 1, 2 ** 64, 2 ** 64 + 1, -2 ** 63, -2 ** 63 - 1, -2 ** 63 + 1, 10 ** 19, 10 ** 20, -10 ** 19]
    v = rng.choice(B + [rng.getrandbits(64), -rng.getrandbits(63), rng.getrandbits(63), rng.randrange(-2 ** 64, 2 ** 65)])
    fmt = rng.choice(["dec", "dec", "hex", "und"])
    if fmt == "dec":
        t = str(v)
    elif fmt == "hex":
        t = ("-" if v < 0 else "") + "0x" + "%x" % abs(v)
    else:
        s = str(abs(v))
        t = ("-" if v < 0 else "") + (s[:1] + "_" + s[1:] if len(s) > 1 else s)
    if rng.random() < 0.1:
        t = "+" + t if v >= 0 else t
    out = []
    out.append(("S", t, ("ok", v, "core/s64") if -2 ** 63 <= v < 2 ** 63 else "err"))
    out.append(("U", t, ("ok", v, "core/u64") if 0 <= v < 2 ** 64 else ("err" if v > 0 else None)))
    out.append(("Q", t + ":s", ("ok", v, "core/s64") if -2 ** 63 <= v < 2 ** 63 else "err"))
    out.append(("Q", t + ":u", ("ok", v, "core/u64") if 0 <= v < 2 ** 64 else ("err" if v > 0 else None)))
    return out


def run(ctx):
    exe = build.janet("plain")
    quick = ctx.tier == "quick"
    n_lit = 60000 if quick else 3000000
    n_dbl = 40000 if quick else 2000000
    n_int = 4000 if quick else 200000
    n_i64 = 3000 if quick else 100000
    per = 2000
    ctx.rule = ("literals generated together with their exact rational value (radix 2..36, hex/p, underscores, long mantissas, "
                "ties and near-ties between adjacent doubles, overflow/underflow edges); non-trivial = literal not exactly "
                "representable, or >17 significant digits, or |decimal exponent|>300; doubles = random bit patterns/edges; "
                "int64 texts at range boundaries")
    ctx.assumptions = ["Python fractions.Fraction and math.nextafter are exact", "buffer/push-float64 is a memcpy of the double",
                       "a real image byte 0xC8 + 8 LE bytes unmarshals to exactly that double (used only to inject doubles)"]
    d = core.case_dir()
    drv = os.path.join(d, "driver.janet")
    with open(drv, "w") as fh:
        fh.write(DRIVER)

    batches = []
    rng = ctx.rng
    bid = 0

    def add_batch(items):
        nonlocal bid
        bid += 1
        batches.append((bid, items))

    cur = []
    for i in range(n_lit):
        t, v = make_literal(rng)
        cur.append(("L", t, v))
        if rng.random() < 0.15 and t.lstrip("-")[:1].isdigit():
            cur.append(("P", t, v))
        if len(cur) >= per:
            add_batch(cur)
            cur = []
    for i in range(n_dbl):
        dv = gen_double(rng)
        cur.append(("D", dbits(dv), dv))
        if len(cur) >= per:
            add_batch(cur)
            cur = []
    for i in range(n_int):
        v = rng.choice([0, 1, -1, 2 ** 31, 2 ** 53, -2 ** 53, 2 ** 53 - 1, 10 ** 15, 10 ** 15 + 1, 999999999999999, rng.randrange(-2 ** 53, 2 ** 53 + 1),
                        rng.randrange(-10 ** 6, 10 ** 6), 10 ** rng.randrange(0, 16), 2 ** rng.randrange(0, 54)])
        cur.append(("I", str(v), v))
        if len(cur) >= per:
            add_batch(cur)
            cur = []
    for i in range(n_i64):
        for c in int64_cases(rng):
            cur.append(c)
        if len(cur) >= per:
            add_batch(cur)
            cur = []
    if cur:
        add_batch(cur)

    def do_batch(b):
        bid, items = b
        inp = os.path.join(d, "in%d.txt" % bid)
        with open(inp, "w") as fh:
            for k, t, _ in items:
                fh.write("%s %s\n" % (k, t))
        r = core.run([exe, drv, inp], timeout=300, cpu=250)
        files = {"driver.janet": DRIVER, "input.txt": open(inp).read()}
        if not ctx.check_result(r, files, where="batch"):
            core.discard(r)
            return
        lines = r.out.decode(errors="replace").splitlines()
        if len(lines) != len(items):
            ctx.violation("driver-output-mismatch", "driver printed %d lines for %d items; stderr=%s" % (len(lines), len(items), r.err[-500:]), files)
            core.discard(r)
            return
        for (k, t, v), line in zip(items, lines):
            ctx.evals()
            check_one(ctx, k, t, v, line)
        os.unlink(inp)
        core.discard(r)

    core.pmap(do_batch, batches)


def sig_digits(text):
    body = text.lstrip("+-")
    for mark in ("e", "E", "&", "p", "P"):
        if mark in body and not body.startswith("0x") or (mark in "pP&" and mark in body):
            body = body.split(mark)[0]
    return len([c for c in body if c.isalnum()])


def check_one(ctx, k, t, v, line):
    if k in ("L", "P"):
        acc, exactly = acceptable(v)
        if line not in acc:
            ctx.violation("literal-rounding:%s" % ("exact" if exactly else "inexact"),
                          "literal %r (%s) scanned to %s, acceptable %s" % (t, "scan-number" if k == "L" else "parse", line, sorted(acc)),
                          {"literal.txt": t, "observed.txt": line, "acceptable.txt": " ".join(sorted(acc))})
        if (not exactly) or sig_digits(t) > 17:
            ctx.nontriv(("L", t))
        ctx.count("literals" if k == "L" else "literals_via_parse")
        ctx.sample({"literal": t, "got_bits": line, "acceptable": sorted(acc)}, cap=4)
    elif k == "D":
        parts = line.split(" ")
        if len(parts) != 7:
            ctx.violation("double-line-shape", "bad driver line %r for double %s" % (line, t), {"double.txt": t})
            return
        f, r17, rj, rs, t17, tj, ts = parts
        if f != t:
            # injection failed: harness problem, not a property violation
            raise core.HarnessError("double injection mismatch %s vs %s" % (f, t))
        neg0 = {dbits(0.0), dbits(-0.0)}
        def same(a, b):
            return a == b or (a in neg0 and b in neg0 and False)
        if r17 != t:
            ctx.violation("roundtrip-17g", "double %s printed %%.17g as %r reads back %s" % (t, bytes.fromhex(t17), r17), {"double.txt": t})
        if rj != t and not (t in neg0 and rj in neg0):
            ctx.violation("roundtrip-j", "double %s printed %%j as %r reads back %s" % (t, bytes.fromhex(tj), rj), {"double.txt": t})
        # the %.17g text itself must denote a value whose nearest double is d (checked through Python float())
        try:
            if dbits(float(bytes.fromhex(t17).decode())) != t:
                ctx.violation("print-17g-wrong-text", "double %s printed as %r which denotes another double" % (t, bytes.fromhex(t17)), {"double.txt": t})
        except ValueError:
            ctx.violation("print-17g-unparseable", "double %s printed as %r" % (t, bytes.fromhex(t17)), {"double.txt": t})
        ctx.count("doubles")
        ctx.nontriv(("D", t))
        ctx.sample({"double_bits": t, "text17": bytes.fromhex(t17).decode(errors="replace"), "textj": bytes.fromhex(tj).decode(errors="replace")}, cap=6)
    elif k == "I":
        parts = [bytes.fromhex(p).decode(errors="replace") for p in line.split(" ")]
        want = str(v)
        names = ["string", "%j", "describe", "%d", "%v"]
        for nm, got in zip(names, parts):
            if got != want and not (v == 0 and got in ("0", "-0")):
                ctx.violation("integer-print:%s" % nm, "integer %d printed by %s as %r" % (v, nm, got), {"value.txt": want})
        ctx.count("integers")
        if abs(v) > 2 ** 31:
            ctx.nontriv(("I", v))
    else:
        ctx.count("int64_texts")
        if v is None:
            return
        if v == "err":
            rejected = line == "err" or (k == "Q" and line.endswith(" symbol"))
            if not rejected:
                ctx.violation("int64-out-of-range-accepted:%s" % k, "text %r accepted as %r" % (t, line), {"text.txt": t})
            ctx.nontriv((k, t))
        else:
            want = "ok %d %s" % (v[1], v[2])
            if line != want:
                ctx.violation("int64-roundtrip:%s" % k, "text %r gave %r, want %r" % (t, line, want), {"text.txt": t})
            if abs(v[1]) >= 2 ** 53:
                ctx.nontriv((k, t))
