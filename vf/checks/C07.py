"""C07 — a suspended fiber is resumed only by what it is currently waiting for.

Three-party scenarios: fiber F blocks on wait A, A is abandoned (cancelled, deadline
expiry, per-call timeout, satisfied through another select clause), F blocks on wait
B, a helper then *fires A* (gives/takes on the old channel, writes the old pipe, lets
the old timer/process finish) and only later completes B with a unique value.
Client-boundary event log + rules: RET(B) must be B's own legitimate result and must
come after the helper's complete-B marker; an item given after a taker abandoned must
reach the next live taker; ev/sleep d must take >= d on CLOCK_MONOTONIC."""
import os
import random
import re

from vf import build, core

LEVEL = "exploration"

PRELUDE = r'''
(var STEP 0)
(def NAMES @{})
(defn show [r]
  (cond
    (nil? r) "nil"
    (number? r) (string r)
    (keyword? r) (string ":" r)
    (abstract? r) (string "abstract:" (get NAMES r "?"))
    (bytes? r) (string "bytes:" r)
    (tuple? r) (string "[" (string/join (map show r) " ") "]")
    (string "?" (type r))))
(defn ev-call [fid tag] (eprint "E " (++ STEP) " C " fid " " tag))
(defn ev-ret [fid tag r] (eprint "E " (++ STEP) " R " fid " " tag " " r))
(defn mark [tag] (eprint "E " (++ STEP) " M - " tag))
(defmacro op [fid tag form]
  ~(do (,ev-call ,fid ,tag)
     (def r (try (,show ,form) ([e] (string "err:" e))))
     (,ev-ret ,fid ,tag r)))
'''

JANET_CHILD = None  # set at run time to the built binary path

# wait kinds: setup (top-level defs), wait expression, fire (activity on the abandoned resource), complete (for use as B), legit result
def kind_spec(kind, pfx, exe):
    if kind == "take":
        return dict(setup='(def %s (ev/chan)) (put NAMES %s "%s")' % (pfx, pfx, pfx), wait="(ev/take %s)" % pfx,
                    fire="(ev/spawn (ev/give %s 666))" % pfx, complete="(ev/give %s 4242)" % pfx, legit=["4242"], select_clause=pfx, select_legit=["[:take abstract:%s 4242]" % pfx])
    if kind == "give":
        return dict(setup='(def %s (ev/chan)) (put NAMES %s "%s")' % (pfx, pfx, pfx), wait="(ev/give %s 111)" % pfx,
                    fire="(ev/spawn (ev/take %s))" % pfx, complete="(ev/take %s)" % pfx, legit=["abstract:%s" % pfx], select_clause="[%s 111]" % pfx, select_legit=["[:give abstract:%s]" % pfx])
    if kind == "seltake":
        return dict(setup='(def %s (ev/chan)) (put NAMES %s "%s") (def %sx (ev/chan)) (put NAMES %sx "%sx")' % (pfx, pfx, pfx, pfx, pfx, pfx),
                    wait="(ev/select %s %sx)" % (pfx, pfx), fire="(ev/spawn (ev/give %s 666))" % pfx, complete="(ev/give %s 4242)" % pfx,
                    legit=["[:take abstract:%s 4242]" % pfx])
    if kind == "selgive":
        return dict(setup='(def %s (ev/chan)) (put NAMES %s "%s")' % (pfx, pfx, pfx), wait="(ev/select [%s 111])" % pfx,
                    fire="(ev/spawn (ev/take %s))" % pfx, complete="(ev/take %s)" % pfx, legit=["[:give abstract:%s]" % pfx])
    if kind in ("take-closefire", "seltake-closefire", "give-closefire"):
        # as the abandoned wait A only: afterwards the channel is CLOSED instead of given to / taken from
        base = kind_spec(kind.split("-")[0], pfx, exe)
        base = dict(base, fire="(ev/chan-close %s)" % pfx)
        return base
    if kind == "selgive-same":
        # as the second wait B only: a select give clause on the very channel whose take was abandoned before (channel a);
        # it must block until a live taker arrives
        return dict(setup="", wait="(ev/select [a 222])", fire="nil", complete="(ev/take a)", legit=["[:give abstract:a]"])
    if kind == "sleep":
        return dict(setup="", wait="(ev/sleep 0.07)", fire="nil", complete="nil", legit=["nil"], self_completing=True)
    if kind == "read":
        return dict(setup="(def [%sr %sw] (os/pipe))" % (pfx, pfx), wait="(ev/read %sr 10)" % pfx,
                    fire='(ev/write %sw "STALE")' % pfx, complete='(ev/write %sw "4242")' % pfx, legit=["bytes:4242"],
                    timeout_wait="(ev/read %sr 10 @\"\" 0.02)" % pfx)
    if kind == "procwait":
        flags = ":px" if pfx == "a" else ":p"   # as the abandoned wait A, also exercise the raise-on-failure flag
        return dict(setup='(def %sp (os/spawn ["%s" "-e" "(os/sleep 0.07) (os/exit 7)"] %s))' % (pfx, exe, flags), wait="(os/proc-wait %sp)" % pfx,
                    fire="nil", complete="nil", legit=["7"], self_completing=True)
    if kind == "deadline":
        return dict(setup='(def %s (ev/chan)) (put NAMES %s "%s")' % (pfx, pfx, pfx), wait="(ev/with-deadline 5 (ev/take %s))" % pfx,
                    fire="(ev/spawn (ev/give %s 666))" % pfx, complete="(ev/give %s 4242)" % pfx, legit=["4242"])
    raise ValueError(kind)


A_KINDS = ["take", "give", "seltake", "selgive", "sleep", "read", "procwait", "deadline", "take-closefire", "seltake-closefire", "give-closefire"]
B_KINDS = ["take", "give", "seltake", "selgive", "sleep", "read", "procwait", "deadline", "selgive-same"]
ABANDON = ["cancel", "deadline", "select-other", "timeout-arg"]


def make_scenario(rng, akind, bkind, method, exe, flavour="chan"):
    A = kind_spec(akind, "a", exe)
    B = kind_spec(bkind, "b", exe)
    if bkind == "selgive-same":
        if akind not in ("take", "seltake", "deadline"):
            return None
        A = dict(A, fire="nil")     # nobody gives on a: the only live party afterwards is F's own give clause
    if flavour == "tchan":
        # the same single-thread scenario over thread channels: every hand-off goes through the thread-channel code path
        A = dict(A, setup=A["setup"].replace("(ev/chan)", "(ev/thread-chan)"))
        B = dict(B, setup=B["setup"].replace("(ev/chan)", "(ev/thread-chan)"))
    lines = [PRELUDE, A["setup"], B["setup"], '(def other (%s)) (put NAMES other "other")' % ("ev/thread-chan" if flavour == "tchan" else "ev/chan")]
    # how A is abandoned
    if method == "cancel":
        a_form = "(try %s ([e] :abandoned))" % A["wait"]
        abandon = "(ev/cancel F :cancelled)"
    elif method == "deadline":
        a_form = "(try (ev/with-deadline 0.02 %s) ([e] :abandoned))" % A["wait"]
        abandon = None
    elif method == "select-other":
        if "select_clause" not in A:
            return None
        a_form = "(ev/select %s other)" % A["select_clause"]
        abandon = "(ev/give other 999)"
    elif method == "timeout-arg":
        if "timeout_wait" not in A:
            return None
        a_form = "(try %s ([e] :abandoned))" % A["timeout_wait"]
        abandon = None
    else:
        return None
    extra_yields = rng.choice([0, 0, 1, 2])
    lines.append("(def F (ev/spawn (op 0 \"A\" %s) %s (op 0 \"B\" %s) (mark \"F-done\")))" % (a_form, " ".join(["(ev/sleep 0)"] * extra_yields), B["wait"]))
    helper = ["(ev/sleep 0.03)"]
    if abandon:
        helper.append("(mark \"abandon\") %s" % abandon)
    helper.append("(ev/sleep 0.05)")
    order = rng.choice(["fire-first", "fire-first", "fire-twice"])
    helper.append("(mark \"fire-A\") %s" % A["fire"])
    if order == "fire-twice" and A["fire"] != "nil":
        helper.append("(ev/sleep 0.01) %s" % A["fire"])
    helper.append("(ev/sleep %s)" % rng.choice(["0.04", "0.05", "0.06"]))
    helper.append("(mark \"complete-B\") %s" % B["complete"])
    # rule 3: after everything, a fresh live taker on A's channel must still get what was given after the abandonment
    post = ""
    if akind in ("take", "seltake") and method in ("cancel", "deadline") and bkind != "selgive-same":
        post = "(ev/sleep 0.02) (op 2 \"fresh-take\" (ev/with-deadline 2 (ev/take a)))"
    lines.append("(ev/spawn %s %s (mark \"helper-done\") (ev/sleep 0.06) (os/exit 0))" % (" ".join(helper), post))
    # safety net so the process always ends (logical hang detection is done from the log)
    lines.append("(ev/spawn (ev/sleep 3) (mark \"watchdog\") (os/exit 0))")
    return "\n".join(lines) + "\n", A, B


EV_RE = re.compile(r"^E (\d+) ([CRM]) (\S+) (\S+) ?(.*)$")


def judge(ctx, akind, bkind, method, A, B, err_text, files, tag=""):
    evs = []
    for line in err_text.splitlines():
        m = EV_RE.match(line)
        if m:
            evs.append((int(m.group(1)), m.group(2), m.group(3), m.group(4), m.group(5)))
    def idx(pred):
        for i, e in enumerate(evs):
            if pred(e):
                return i
        return None
    callA = idx(lambda e: e[1] == "C" and e[2] == "0" and e[3] == "A")
    retA = idx(lambda e: e[1] == "R" and e[2] == "0" and e[3] == "A")
    callB = idx(lambda e: e[1] == "C" and e[2] == "0" and e[3] == "B")
    retB = idx(lambda e: e[1] == "R" and e[2] == "0" and e[3] == "B")
    fire = idx(lambda e: e[1] == "M" and e[3] == "fire-A")
    compl = idx(lambda e: e[1] == "M" and e[3] == "complete-B")
    sig = "%s%s->%s:%s" % (tag, akind, bkind, method)
    if callA is None or retA is None or callB is None or fire is None:
        return "inconclusive"
    if not (retA < callB < fire):
        return "inconclusive"   # scheduling did not produce the intended order; nothing can be concluded
    a_res = evs[retA][4]
    abandoned_ok = (":abandoned" in a_res) or ("[:take abstract:other 999]" in a_res)
    if not abandoned_ok:
        return "inconclusive"
    ctx.nontriv(sig + ":" + str(hash(err_text) % 7))
    self_completing = B.get("self_completing")
    if retB is None:
        # B never completed: was its completion issued?
        if compl is not None and not self_completing and idx(lambda e: e[1] == "M" and e[3] == "watchdog") is not None:
            ctx.violation("wait-never-completed:" + sig, "F's wait B (%s) never returned although its completion was issued; log:\n%s" % (bkind, err_text[-1500:]), files)
            return "violation"
        return "inconclusive"
    b_res = evs[retB][4]
    if b_res not in B["legit"]:
        ctx.violation("stale-wakeup:wrong-result:" + sig, "wait B (%s) returned %r, legitimate results %s; A (%s) had been abandoned by %s and was fired later" % (bkind, b_res, B["legit"], akind, method), files)
        return "violation"
    if not self_completing and (compl is None or retB < compl):
        ctx.violation("stale-wakeup:early:" + sig, "wait B (%s) returned before its completion was issued" % bkind, files)
        return "violation"
    fresh = idx(lambda e: e[1] == "R" and e[2] == "2" and e[3] == "fresh-take")
    if fresh is not None:
        if evs[fresh][4] != "666":
            ctx.violation("item-consumed-by-absent-taker:" + sig, "a value given on the channel after its taker had abandoned did not reach the next live taker (got %r)" % evs[fresh][4], files)
            return "violation"
    return "held"


SLEEP_PROG = r'''
(def ds [%s])
(each d ds
  (def t0 (os/clock :monotonic))
  (ev/sleep d)
  (def el (- (os/clock :monotonic) t0))
  (print d " " el))
'''


INTR_PROG = r'''
# an interrupting deadline guarding a fiber that never yields: each round must end with the deadline error, not before d elapsed
(def ds [%s])
(each d ds
  (def f (coro (forever :busy)))
  (def t0 (os/clock :monotonic))
  (ev/deadline d nil f true)
  (def r (protect (resume f)))
  (def el (- (os/clock :monotonic) t0))
  (print "I " d " " el " " (if (r 0) "returned" (string (r 1)))))
(print "INTR-DONE")
'''


RAISE_PROG = r'''
# an operation with a timeout argument that RAISES instead of suspending must leave nothing behind: the fiber's next wait (B)
# completes by its own cause only. Each line: "R <op> <raised?> <B kind> <B result> <elapsed>"
(def [r w] (os/pipe))
(def [r2 w2] (os/pipe))
(ev/spawn (protect (ev/read r 10)))          # r has a pending reader: a second read is refused
(ev/sleep 0.01)
(def to %s)
(def ops
  {:read-busy (fn [] (ev/read r 10 @"" to))
   :chunk-busy (fn [] (ev/chunk r 10 @"" to))
   :read-bad-n (fn [] (ev/read r2 -1 @"" to))
   :read-bad-buf (fn [] (ev/read r2 10 :not-a-buffer to))
   :write-bad-data (fn [] (ev/write w2 123 to))
   :read-closed (fn [] (def [a b] (os/pipe)) (ev/close a) (ev/close b) (ev/read a 10 @"" to))
   :write-closed (fn [] (def [a b] (os/pipe)) (ev/close a) (ev/close b) (ev/write b "x" to))
   :take-closed (fn [] (def c (ev/chan)) (ev/chan-close c) (ev/with-deadline to (ev/give c 1)))
   # waits refused because they are attempted inside a function that C code calls back (janet_call): the armed timer must die with them
   :sleep-in-replace-callback (fn [] (string/replace "a" (fn [_] (ev/sleep to) "x") "a"))
   :sleep-in-out-callback (fn [] (with-dyns [:out (fn [x] (ev/sleep to))] (print "x")))
   :read-in-cmt-callback (fn [] (peg/match ~(cmt (<- 1) ,(fn [_] (ev/read r2 10 @"" to))) "a"))
   # the same, one fiber deeper: the callback resumes a coroutine and the coroutine is what tries to wait
   :coro-sleep-in-cmt-callback (fn [] (peg/match ~(cmt (<- 1) ,(fn [_] (resume (coro (ev/sleep to) :slept)))) "a"))
   :coro-sleep-in-replace-callback (fn [] (string/replace "a" (fn [_] (resume (coro (ev/sleep to) "x"))) "a"))
   :coro-read-in-out-callback (fn [] (with-dyns [:out (fn [x] (resume (coro (ev/read r2 10 @"" to))))] (print "x")))})
(each opname [%s]
  (def raised (not (first (protect ((ops opname))))))
  (each bkind [:sleep :take :read]
    (def t0 (os/clock :monotonic))
    (def res
      (case bkind
        :sleep (protect (ev/sleep %s))
        :take (do (def c (ev/chan)) (ev/spawn (ev/sleep %s) (ev/give c :item)) (protect (ev/take c)))
        :read (do (def [a b] (os/pipe)) (ev/spawn (ev/sleep %s) (ev/write b "data")) (protect (string (ev/read a 10))))))
    (printf "R %%s %%s %%s %%q %%.4f" opname (if raised "raised" "returned") bkind res (- (os/clock :monotonic) t0))
    # re-arm for the next B: run the raising operation again
    (protect ((ops opname)))))
(print "RAISE-DONE")
(os/exit 0)
'''


def run(ctx):
    exe = build.janet("plain")
    quick = ctx.tier == "quick"
    reps = 1 if quick else 5
    ctx.rule = ("every ordered pair (A,B) of wait kinds {take, give, select-take, select-give, sleep, pipe read, os/proc-wait, ev/with-deadline body} x every "
                "applicable way of abandoning A {ev/cancel, deadline expiry, satisfied through another select clause, per-call timeout}; helper fires A's "
                "resource after F is parked on B, later completes B with a unique value; non-trivial = log proves A parked, abandoned, and fired while F waited "
                "on B; plus ev/sleep durations 0..20 ms measured on CLOCK_MONOTONIC; interrupting deadlines on busy fibers under contention; operations "
                "with a timeout argument that raise without suspending, followed by an unrelated wait")
    ctx.assumptions = ["scenario steps are ordered with generous sleeps; a run whose log does not show the intended order is inconclusive, never a violation",
                       "the sleep rule is one-sided (elapsed >= d), so machine load cannot cause an alarm"]
    cases = []
    for rep in range(reps):
        for a in A_KINDS:
            for b in B_KINDS:
                for m in ABANDON:
                    cases.append((a, b, m, rep, "chan"))
    # the channel kinds again over thread channels used within one thread
    CH = ("take", "give", "seltake", "selgive", "deadline", "take-closefire", "seltake-closefire", "give-closefire", "selgive-same")
    for rep in range(reps):
        for a in A_KINDS:
            for b in B_KINDS:
                if a in CH or b in CH:
                    for m in ABANDON:
                        cases.append((a, b, m, rep, "tchan"))

    def one(i):
        a, b, m, rep, flavour = cases[i]
        tag = "tchan:" if flavour == "tchan" else ""
        rng = random.Random(ctx.sub_seed("s", i))
        sc = make_scenario(rng, a, b, m, exe, flavour)
        if sc is None:
            return
        script, A, B = sc
        d = core.case_dir()
        path = os.path.join(d, "scenario.janet")
        open(path, "w").write(script)
        res = core.run([exe, path], timeout=30, cpu=10)
        core.discard(res)
        files = {"scenario.janet": script, "events.txt": res.err[-6000:]}
        ctx.evals()
        if not ctx.check_result(res, files, where="scenario"):
            return
        verdict = judge(ctx, a, b, m, A, B, res.err.decode(errors="replace"), files, tag)
        ctx.count("verdict_" + verdict)
        if verdict == "inconclusive":
            # re-run once alone-ish before giving up on this combination
            res2 = core.run([exe, path], timeout=30, cpu=10)
            core.discard(res2)
            v2 = judge(ctx, a, b, m, A, B, res2.err.decode(errors="replace"), dict(files, **{"events.txt": res2.err[-6000:]}), tag)
            ctx.count("rerun_" + v2)
        ctx.sample({"A": a, "B": b, "abandon": m, "channels": flavour, "verdict": verdict}, cap=6)

    core.pmap(one, range(len(cases)), jobs=8)

    # rule 4: ev/sleep never returns early
    nsleep = 40 if quick else 400
    def sleeps(i):
        rng = random.Random(ctx.sub_seed("sl", i))
        ds = [rng.choice([0, 0.0005, 0.001, 0.0015, 0.002, 0.003, 0.005, 0.007, 0.01, 0.02, rng.random() * 0.02]) for _ in range(25)]
        script = SLEEP_PROG % " ".join(repr(x) for x in ds)
        d = core.case_dir()
        path = os.path.join(d, "sleep.janet")
        open(path, "w").write(script)
        res = core.run([exe, path], timeout=60)
        core.discard(res)
        files = {"sleep.janet": script}
        if not ctx.check_result(res, files, where="sleep"):
            return
        for line in res.out.decode().splitlines():
            dd, el = line.split()
            ctx.evals()
            ctx.count("sleeps")
            if float(el) < float(dd):
                ctx.violation("sleep-returned-early", "ev/sleep %s returned after %s s" % (dd, el), files)
    core.pmap(sleeps, range(nsleep), jobs=4)

    # rule 6: an operation with a timeout argument that raises without suspending leaves no live timer behind
    nraise = 6 if quick else 60
    ALLOPS = [":read-busy", ":chunk-busy", ":read-bad-n", ":read-bad-buf", ":write-bad-data", ":read-closed", ":write-closed", ":take-closed",
              ":sleep-in-replace-callback", ":sleep-in-out-callback", ":read-in-cmt-callback",
              ":coro-sleep-in-cmt-callback", ":coro-sleep-in-replace-callback", ":coro-read-in-out-callback"]

    def raising(i):
        rng = random.Random(ctx.sub_seed("raise", i))
        to = rng.choice([0.02, 0.03, 0.05])
        bdur = to * 3 + 0.05
        opsel = [ALLOPS[(i * 5 + k) % len(ALLOPS)] for k in range(5)]     # rotation: every operation is covered at least twice per 6 runs
        rng.shuffle(opsel)
        script = RAISE_PROG % (repr(to), " ".join(opsel), repr(bdur), repr(bdur), repr(bdur))
        files = {"raise.janet": script}
        d = core.case_dir()
        path = os.path.join(d, "raise.janet")
        open(path, "w").write(script)
        res = core.run([exe, path], timeout=120)
        core.discard(res)
        out = res.out.decode(errors="replace")
        if "RAISE-DONE" not in out:
            if not ctx.check_result(res, files, where="raise-before-suspend"):
                return
            with ctx.lock:
                ctx.inconclusive.append("raise-prog-incomplete")
            return
        for line in out.splitlines():
            if not line.startswith("R "):
                continue
            _, opname, raised, bkind, rest = line.split(" ", 4)
            resq, el = rest.rsplit(" ", 1)
            ctx.evals()
            if raised != "raised":
                ctx.count("raise_op_did_not_raise:" + opname)     # then nothing is claimed about it
                continue
            ctx.count("raise_then_wait")
            ctx.nontriv(("raise", opname, bkind))
            want = {":sleep": "(true nil)", ":take": "(true :item)", ":read": '(true "data")'}[":" + bkind.lstrip(":")]
            if resq != want:
                ctx.violation("stale-timer-after-raise:%s:%s" % (opname, bkind), "after (%s ... timeout %s) raised without suspending, the fiber's next wait (%s) "
                              "ended with %s after %s s instead of %s" % (opname, to, bkind, resq, el, want), files)
            elif bkind.endswith("sleep") and float(el) < bdur:
                ctx.violation("stale-timer-after-raise:%s:sleep-early" % opname, "sleep %s after a raising %s returned after %s s" % (bdur, opname, el), files)
    core.pmap(raising, range(nraise), jobs=6)

    # rule 5: an interrupting deadline ends a busy fiber (bounded progress), under CPU contention from its sibling runs
    nintr = 48 if quick else 480

    def intr(i):
        rng = random.Random(ctx.sub_seed("intr", i))
        ds = [rng.choice([0.001, 0.002, 0.003, 0.005, 0.01, rng.random() * 0.01 + 0.0005]) for _ in range(30)]
        script = INTR_PROG % " ".join(repr(x) for x in ds)
        files = {"intr.janet": script}
        hung = 0
        for attempt in range(2):
            d = core.case_dir()
            path = os.path.join(d, "intr.janet")
            open(path, "w").write(script)
            res = core.run([exe, path], timeout=40)
            core.discard(res)
            out = res.out.decode(errors="replace")
            if res.timed_out:
                hung += 1
                continue
            if "INTR-DONE" not in out:
                # the deadline error surfacing in the root task between two rounds is the documented default target (fiber/root)
                if not ctx.check_result(res, files, where="interrupt-deadline"):
                    return
            for line in out.splitlines():
                if not line.startswith("I "):
                    continue
                _, dd, el, what = line.split(" ", 3)
                ctx.evals()
                ctx.count("interrupt_deadlines")
                ctx.nontriv(("intr", dd[:6]))
                if what == "returned":
                    ctx.violation("interrupt-deadline-returned", "busy fiber guarded by (ev/deadline %s nil f true) returned normally" % dd, files)
                elif float(el) < float(dd):
                    ctx.violation("interrupt-deadline-early", "(ev/deadline %s nil f true) cancelled after %s s" % (dd, el), files)
            break
        if hung == 2:
            ctx.violation("interrupt-deadline-hang", "a busy fiber guarded by an interrupting ev/deadline was never cancelled (40 s watchdog, twice): %s" % ds[:5], files)
        elif hung == 1:
            ctx.count("interrupt_deadline_single_watchdog")
    core.pmap(intr, range(nintr), jobs=16)
