"""C17 — string, buffer and sequence library functions match their reference definitions.

Monitor: generated calls run on the ASan+UBSan build under protect; the result
(canonical text or "error"), and the canonical text of every argument after the
call (non-mutation rule), are compared with direct Python definitions."""
import math
import os
import random

from vf import build, core
from vf.canon import Kw, Sym, Tup, Struct, Table, Buf, canon, emit, jbytes

LEVEL = "exploration"

PRELUDE = open(os.path.join(core.VERIF, "janet", "canon.janet")).read() + r'''
(defn lt5 [x] (< x 5))
(defn neg [x] (- x))
(defn mod3 [x] (% x 3))
(defn dbl [x] (* 2 x))
(defn pair [x] [x x])
(defn pairarr [x] @[x x])
(defn plus [a b] (+ a b))
(defn minus [a b] (- a b))
(defn cmp-desc [a b] (> a b))
(defn cmp-asc [a b] (< a b))
(defn cmp-mod3 [a b] (< (% a 3) (% b 3)))
(defn cmp-true [a b] true)
(defn cmp-false [a b] false)
(defn cmp-flip [a b] (not= 0 (% (+ a b) 2)))
(defn upcase-sub [p] (string "<" p ">"))
(defn keepf [x] (if (even? x) (* x 10)))
(defn showcase [id f args]
  (def r (protect (f ;args)))
  (print id " " (if (r 0) (string "ok " (canon (r 1))) "err") " | " (string/join (map canon args) " , "))
  (flush))
'''

FN = {
    "even?": lambda x: x % 2 == 0, "odd?": lambda x: x % 2 == 1, "pos?": lambda x: x > 0, "lt5": lambda x: x < 5,
    "neg": lambda x: -x, "mod3": lambda x: int(math.fmod(x, 3)), "dbl": lambda x: 2 * x, "identity": lambda x: x,
    "pair": lambda x: Tup([x, x]), "pairarr": lambda x: [x, x],
    "plus": lambda a, b: a + b, "minus": lambda a, b: a - b,
    "keepf": lambda x: x * 10 if x % 2 == 0 else None,
}


class Raise(Exception):
    pass


class Skip(Exception):
    pass


def bts(v):
    if isinstance(v, bytes):
        return v
    if isinstance(v, (Buf, Sym, Kw)):
        return v.b
    raise Raise()


ALPHA = [b"a", b"b", b"\x00", b"\xff"]


def gen_bytes(rng, lo=0, hi=12):
    n = rng.choice([0, 1, 2, 3, 4, 6, 8, 12, rng.randrange(lo, hi + 1)])
    return b"".join(rng.choice(ALPHA[:2] if rng.random() < 0.8 else ALPHA) for _ in range(min(n, hi)))


def as_byteslike(rng, b):
    c = rng.random()
    if c < 0.6:
        return b
    if c < 0.8:
        return Buf(b)
    if c < 0.9 and b:
        return Kw(b)
    if b:
        return Sym(b)
    return b


def gen_pattern(rng):
    return rng.choice([b"a", b"b", b"aa", b"ab", b"aba", b"aab", b"aaab", b"abab", b"aaabb", b"\x00", b"\x00\x00\xff", b"", b"ababab", gen_bytes(rng, 1, 6)])


def gen_index(rng, n):
    return rng.choice([0, 1, n - 1, n, n + 1, n + 2, -1, -2, -n, -n - 1, -n - 2, None, 1.5, 2 ** 31])


def sl(n, s, e):
    def fix(i):
        if i is None:
            return None
        if not isinstance(i, int):
            raise Raise()
        if not (-2 ** 31 <= i < 2 ** 31):
            raise Raise()
        if i < 0:
            i += n + 1
        if i < 0 or i > n:
            raise Raise()
        return i
    a, b = fix(s), fix(e)
    a = 0 if a is None else a
    b = n if b is None else b
    return a, max(a, b)


def find_all(p, s, start=0):
    return [i for i in range(start, len(s) - len(p) + 1) if s[i:i + len(p)] == p]


def seq_items(v):
    if isinstance(v, (list,)):
        return list(v)
    if isinstance(v, Tup):
        return list(v.items)
    if isinstance(v, (bytes, Buf, Sym, Kw)):
        return list(bts(v))
    raise Raise()


def like(v, items):
    """take/drop style: 'Returns a new array, tuple or string respectively'."""
    if isinstance(v, list):
        return Tup(items)   # observed and documented for take/drop on arrays: tuple slices
    if isinstance(v, Tup):
        return Tup(items)
    return bytes(items)


def gen_ints(rng, lo=0, hi=8):
    n = rng.choice([0, 1, 2, 3, 5, 8, rng.randrange(lo, hi + 1)])
    return [rng.choice([0, 1, 2, 3, 4, 5, 6, 7, 9, -1, -2, 10]) for _ in range(n)]


def as_seq(rng, items):
    return list(items) if rng.random() < 0.5 else Tup(items)


# Each generator returns (fname, args, thunk) ; thunk returns expected result (may raise Raise/Skip) or a tuple
# ("mut", result, args_after)


def c_string_find(rng):
    p, s = gen_pattern(rng), gen_bytes(rng, 0, 14)
    st = rng.choice([None, None, 0, 1, len(s), len(s) + 1, -1, 3])
    which = rng.choice(["string/find", "string/find-all"])
    args = [as_byteslike(rng, p), as_byteslike(rng, s)] + ([st] if st is not None else [])
    def f():
        if not p:
            raise Raise()
        if st is not None and st < 0:
            raise Raise()
        hits = find_all(p, s, st or 0)
        if which == "string/find":
            return hits[0] if hits else None
        return hits
    return which, args, f


def c_string_replace(rng):
    p, s = gen_pattern(rng), gen_bytes(rng, 0, 14)
    which = rng.choice(["string/replace", "string/replace-all"])
    usefn = rng.random() < 0.25
    sub = rng.choice([b"", b"X", b"aa", b"a", p + p])
    args = [as_byteslike(rng, p), ("fn", "upcase-sub") if usefn else as_byteslike(rng, sub), as_byteslike(rng, s)]
    def f():
        if not p:
            raise Raise()
        rep = (b"<" + p + b">") if usefn else sub
        out = bytearray()
        i = 0
        done = False
        while i < len(s):
            if s[i:i + len(p)] == p and not (done and which == "string/replace"):
                out += rep
                i += len(p)
                done = True
            else:
                out.append(s[i])
                i += 1
        return bytes(out)
    return which, args, f


def c_string_split(rng):
    d, s = gen_pattern(rng), gen_bytes(rng, 0, 14)
    st = rng.choice([None, None, 0, 1, 2, len(s), -1])
    lim = rng.choice([None, None, 0, 1, 2, 3]) if st is not None else None
    args = [as_byteslike(rng, d), as_byteslike(rng, s)] + ([st] if st is not None else []) + ([lim] if lim is not None else [])
    def f():
        if not d:
            raise Raise()
        if st is not None and st < 0:
            raise Raise()
        out = []
        last = 0
        i = st or 0
        while i <= len(s) - len(d):
            if lim and len(out) + 1 >= lim:
                break
            if s[i:i + len(d)] == d:
                out.append(s[last:i])
                i += len(d)
                last = i
            else:
                i += 1
        out.append(s[last:])
        return out
    return "string/split", args, f


def c_string_join(rng):
    parts = [as_byteslike(rng, gen_bytes(rng, 0, 4)) for _ in range(rng.choice([0, 1, 2, 3, 5]))]
    if rng.random() < 0.1:
        parts.append(rng.choice([1, None, Tup([])]))
    sep = rng.choice([None, b"", b",", b", ", Buf(b"--")])
    args = [as_seq(rng, parts)] + ([sep] if sep is not None else [])
    def f():
        bs = [bts(x) for x in parts]
        return (bts(sep) if sep is not None else b"").join(bs)
    return "string/join", args, f


def c_string_slice(rng):
    s = gen_bytes(rng, 0, 12)
    a = gen_index(rng, len(s))
    b = gen_index(rng, len(s)) if a is not None else None
    which = rng.choice(["string/slice", "buffer/slice", "symbol/slice", "keyword/slice"])
    args = [as_byteslike(rng, s)] + ([a] if a is not None else []) + ([b] if b is not None else [])
    def f():
        lo, hi = sl(len(s), a, b)
        r = s[lo:hi]
        return {"string/slice": r, "buffer/slice": Buf(r), "symbol/slice": Sym(r), "keyword/slice": Kw(r)}[which]
    return which, args, f


def c_string_trim(rng):
    core_ = gen_bytes(rng, 0, 6)
    ws = rng.choice([b" ", b"\t", b"\n", b"\r", b"\v", b"\f", b"x"])
    s = ws * rng.randrange(0, 3) + core_ + ws * rng.randrange(0, 3)
    st = rng.choice([None, None, b"x", b"ab", b"", b"\x00"])
    which = rng.choice(["string/trim", "string/triml", "string/trimr"])
    args = [as_byteslike(rng, s)] + ([st] if st is not None else [])
    def f():
        chars = st if st is not None else b" \t\r\n\v\f"
        lo, hi = 0, len(s)
        if which in ("string/trim", "string/triml"):
            while lo < hi and s[lo] in chars:
                lo += 1
        if which in ("string/trim", "string/trimr"):
            while hi > lo and s[hi - 1] in chars:
                hi -= 1
        return s[lo:hi]
    return which, args, f


def c_string_misc(rng):
    s = gen_bytes(rng, 0, 10)
    which = rng.choice(["string/repeat", "string/reverse", "string/ascii-lower", "string/ascii-upper", "string/has-prefix?", "string/has-suffix?",
                        "string/check-set", "string/bytes", "string/from-bytes"])
    if which == "string/repeat":
        n = rng.choice([0, 1, 2, 3, 17, -1])
        def f():
            if n < 0:
                raise Raise()
            return s * n
        return which, [as_byteslike(rng, s), n], f
    if which == "string/reverse":
        return which, [as_byteslike(rng, s)], lambda: s[::-1]
    if which in ("string/ascii-lower", "string/ascii-upper"):
        t = bytes(rng.choice([65, 90, 97, 122, 64, 91, 96, 123, 0xE9, 0]) for _ in range(rng.randrange(0, 8)))
        def f():
            if which.endswith("lower"):
                return bytes(c + 32 if 65 <= c <= 90 else c for c in t)
            return bytes(c - 32 if 97 <= c <= 122 else c for c in t)
        return which, [as_byteslike(rng, t)], f
    if which in ("string/has-prefix?", "string/has-suffix?"):
        p = rng.choice([b"", s[:2], s[-2:], s, s + b"a", b"a", gen_bytes(rng, 0, 3)])
        return which, [as_byteslike(rng, p), as_byteslike(rng, s)], (lambda: s.startswith(p)) if which.endswith("prefix?") else (lambda: s.endswith(p))
    if which == "string/check-set":
        st = rng.choice([b"ab", b"a", b"", b"ab\x00\xff"])
        return which, [st, as_byteslike(rng, s)], lambda: all(c in st for c in s)
    if which == "string/bytes":
        return which, [as_byteslike(rng, s)], lambda: Tup(list(s))
    vals = [rng.choice([0, 65, 255, 256, -1, 300, 97]) for _ in range(rng.randrange(0, 5))]
    return which, vals, lambda: bytes(v & 0xFF for v in vals)


def c_buffer_bits(rng):
    """buffer/bit, bit-set, bit-clear, bit-toggle: index in [0, 8*len) or an error; writers change exactly one bit and return the buffer."""
    b = gen_bytes(rng, 0, 5)
    n = len(b)
    which = rng.choice(["buffer/bit", "buffer/bit-set", "buffer/bit-clear", "buffer/bit-toggle"])
    idx = rng.choice([0, 1, 7, 8, 8 * n - 1, 8 * n, 8 * n + 1, 8 * n + 7, 8 * n + 8, -1, rng.randrange(0, 8 * n + 1)])
    def f():
        if idx < 0 or idx >= 8 * n:
            raise Raise()
        byte, bit = idx >> 3, idx & 7
        if which == "buffer/bit":
            return bool(b[byte] & (1 << bit))
        nb = bytearray(b)
        if which == "buffer/bit-set":
            nb[byte] |= (1 << bit)
        elif which == "buffer/bit-clear":
            nb[byte] &= ~(1 << bit) & 0xFF
        else:
            nb[byte] ^= (1 << bit)
        return ("mut", Buf(bytes(nb)), [Buf(bytes(nb)), idx])
    return which, [Buf(b), idx], f


def c_take_drop(rng):
    kind = rng.choice(["ints", "ints", "bytes"])
    if kind == "ints":
        items = gen_ints(rng)
        v = as_seq(rng, items)
    else:
        b = gen_bytes(rng, 0, 8)
        v = as_byteslike(rng, b)
        if isinstance(v, (Sym, Kw)):
            v = b
        items = list(b)
    n = rng.choice([0, 1, 2, len(items), len(items) + 1, -1, -2, -len(items) - 1])
    which = rng.choice(["take", "drop"])
    def f():
        L = len(items)
        if which == "take":
            r = items[:n] if n >= 0 else items[max(0, L + n):]
        else:
            r = items[n:] if n >= 0 else items[:max(0, L + n)]
        if isinstance(v, list):
            return Tup(r)
        if isinstance(v, Tup):
            return Tup(r)
        if isinstance(v, Buf):
            return bytes(r)
        return bytes(r)
    return which, [n, v], f


def c_take_while(rng):
    items = gen_ints(rng)
    v = as_seq(rng, items)
    pred = rng.choice(["even?", "odd?", "pos?", "lt5"])
    which = rng.choice(["take-while", "take-until", "drop-while", "drop-until"])
    def f():
        p = FN[pred]
        test = p if which.endswith("while") else (lambda x: not p(x))
        i = 0
        while i < len(items) and test(items[i]):
            i += 1
        r = items[:i] if which.startswith("take") else items[i:]
        return Tup(r)
    return which, [("fn", pred), v], f


def c_partition(rng):
    items = gen_ints(rng, 0, 10)
    v = as_seq(rng, items)
    n = rng.choice([1, 2, 3, 4, len(items) + 1])
    if rng.random() < 0.5:
        def f():
            return [Tup(items[i:i + n]) for i in range(0, len(items), n)]
        return "partition", [n, v], f
    fn = rng.choice(["even?", "mod3", "identity", "lt5"])
    def g():
        out = []
        prev = object()
        for x in items:
            k = canon(FN[fn](x))
            if not out or k != prev:
                out.append([])
            out[-1].append(x)
            prev = k
        return out
    return "partition-by", [("fn", fn), v], g


def c_interleave(rng):
    which = rng.choice(["interleave", "interpose", "zipcoll", "flatten", "reverse", "reverse!", "distinct", "frequencies", "group-by"])
    a, b = gen_ints(rng), gen_ints(rng)
    if which == "interleave":
        cols = [as_seq(rng, a), as_seq(rng, b)] + ([as_seq(rng, gen_ints(rng))] if rng.random() < 0.3 else [])
        def f():
            its = [seq_items(c) for c in cols]
            n = min(len(i) for i in its)
            return [its[j][i] for i in range(n) for j in range(len(its))]
        return which, cols, f
    if which == "interpose":
        def f():
            out = []
            for i, x in enumerate(a):
                if i:
                    out.append(Kw("s"))
                out.append(x)
            return out
        return which, [Kw("s"), as_seq(rng, a)], f
    if which == "zipcoll":
        ks = [Kw("k%d" % i) for i in range(len(a))]
        def f():
            d = {}
            for i in range(min(len(ks), len(b))):
                if b[i] is not None:
                    d[canon(ks[i])] = (ks[i], b[i])
            return Table(list(d.values()))
        return which, [as_seq(rng, ks), as_seq(rng, b)], f
    if which == "flatten":
        def nest(depth):
            if depth == 0 or rng.random() < 0.4:
                return rng.choice([1, 2, 3, b"s", Kw("k")])
            return as_seq(rng, [nest(depth - 1) for _ in range(rng.randrange(0, 4))])
        tree = as_seq(rng, [nest(3) for _ in range(rng.randrange(0, 4))])
        def f():
            out = []
            def go(x):
                if isinstance(x, (list, Tup)):
                    for e in seq_items(x):
                        go(e)
                else:
                    out.append(x)
            go(tree)
            return out
        return which, [tree], f
    if which == "reverse":
        v = rng.choice([as_seq(rng, a), gen_bytes(rng, 0, 6), Buf(gen_bytes(rng, 0, 6))])
        def f():
            if isinstance(v, (bytes, Buf)):
                return Buf(bts(v)[::-1])
            return list(reversed(seq_items(v)))
        return which, [v], f
    if which == "reverse!":
        v = list(a)
        return which, [v], lambda: ("mut", list(reversed(a)), [list(reversed(a))])
    vals = [rng.choice([1, 2, 1, Tup([1]), Tup([1]), b"a", Kw("a"), b"a", 3]) for _ in range(rng.randrange(0, 8))]
    if which == "distinct":
        def f():
            seen, out = set(), []
            for x in vals:
                k = canon(x)
                if k not in seen:
                    seen.add(k)
                    out.append(x)
            return out
        return which, [as_seq(rng, vals)], f
    if which == "frequencies":
        def f():
            d = {}
            for x in vals:
                k = canon(x)
                d[k] = (x, d.get(k, (x, 0))[1] + 1)
            return Table(list(d.values()))
        return which, [as_seq(rng, vals)], f
    fn = rng.choice(["even?", "mod3", "lt5"])
    def f():
        d = {}
        for x in a:
            kv = FN[fn](x)
            k = canon(kv)
            d.setdefault(k, (kv, []))[1].append(x)
        return Table(list(d.values()))
    return "group-by", [("fn", fn), as_seq(rng, a)], f


def c_range(rng):
    n = rng.choice([1, 2, 3])
    vals = [rng.choice([0, 1, 2, 3, 5, 10, -3, -1, 0.5, 2.5]) for _ in range(n)]
    if n == 3:
        vals[2] = rng.choice([1, 2, 3, -1, -2, 0.5, 0, -0.25])
    def f():
        if n == 1:
            s, e, st = 0, vals[0], 1
        elif n == 2:
            s, e, st = vals[0], vals[1], 1
        else:
            s, e, st = vals
        out = []
        if st > 0:
            x = s
            while x < e:
                out.append(x)
                x += st
        elif st < 0:
            x = s
            while x > e:
                out.append(x)
                x += st
        if len(out) > 1000:
            raise Skip()
        return out
    return "range", vals, f


def c_minmax(rng):
    a = gen_ints(rng)
    which = rng.choice(["min", "max", "min-of", "max-of", "sum", "product", "mean", "extreme", "first", "last", "index-of", "find-index", "find", "count",
                        "any?", "every?", "some", "all"])
    v = as_seq(rng, a)
    if which in ("min", "max"):
        return which, list(a), lambda: (min(a) if which == "min" else max(a)) if a else None
    if which in ("min-of", "max-of"):
        return which, [v], lambda: (min(a) if which == "min-of" else max(a)) if a else None
    if which == "sum":
        return which, [v], lambda: sum(a)
    if which == "product":
        return which, [v], lambda: math.prod(a)
    if which == "mean":
        def f():
            if not a:
                raise Skip()
            return sum(a) / len(a)
        return which, [v], f
    if which == "extreme":
        o = rng.choice(["cmp-desc", "cmp-asc"])
        def f():
            if not a:
                return None
            best = a[0]
            for x in a[1:]:
                if (x > best) if o == "cmp-desc" else (x < best):
                    best = x
            return best
        return which, [("fn", o), v], f
    if which == "first":
        return which, [v], lambda: a[0] if a else None
    if which == "last":
        return which, [v], lambda: a[-1] if a else None
    if which == "index-of":
        x = rng.choice(a + [99]) if a else 99
        d = rng.choice([None, Kw("d")])
        def f():
            for i, y in enumerate(a):
                if y == x:
                    return i
            return d
        return which, [x, v] + ([d] if d is not None else []), f
    pred = rng.choice(["even?", "odd?", "pos?", "lt5"])
    p = FN[pred]
    if which == "find-index":
        return which, [("fn", pred), v], lambda: next((i for i, y in enumerate(a) if p(y)), None)
    if which == "find":
        return which, [("fn", pred), v], lambda: next((y for y in a if p(y)), None)
    if which == "count":
        return which, [("fn", pred), v], lambda: sum(1 for y in a if p(y))
    if which == "some":
        return which, [("fn", pred), v], lambda: True if any(p(y) for y in a) else None
    if which == "all":
        return which, [("fn", pred), v], lambda: all(p(y) for y in a)
    mixed = [rng.choice([None, False, 1, 2, True]) for _ in range(rng.randrange(0, 5))]
    mv = as_seq(rng, mixed)
    if which == "any?":
        return which, [mv], lambda: next((y for y in mixed if y is not None and y is not False), (mixed[-1] if mixed else None))
    def f():
        for y in mixed:
            if y is None or y is False:
                return y
        return mixed[-1] if mixed else True
    return "every?", [mv], f


def c_mapreduce(rng):
    a, b = gen_ints(rng), gen_ints(rng)
    v, w = as_seq(rng, a), as_seq(rng, b)
    which = rng.choice(["map", "map2", "mapcat", "filter", "keep", "reduce", "reduce2", "accumulate", "accumulate2", "mapbytes"])
    if which == "map":
        fn = rng.choice(["dbl", "neg", "pair", "even?"])
        return "map", [("fn", fn), v], lambda: [FN[fn](x) for x in a]
    if which == "map2":
        fn = rng.choice(["plus", "minus"])
        return "map", [("fn", fn), v, w], lambda: [FN[fn](x, y) for x, y in zip(a, b)]
    if which == "mapcat":
        fn = rng.choice(["pair", "pairarr"])
        return "mapcat", [("fn", fn), v], lambda: [y for x in a for y in (x, x)]
    if which == "filter":
        fn = rng.choice(["even?", "odd?", "lt5"])
        return "filter", [("fn", fn), v], lambda: [x for x in a if FN[fn](x)]
    if which == "keep":
        return "keep", [("fn", "keepf"), v], lambda: [FN["keepf"](x) for x in a if FN["keepf"](x) is not None]
    fn = rng.choice(["plus", "minus"])
    if which == "reduce":
        init = rng.choice([0, 10])
        def f():
            acc = init
            for x in a:
                acc = FN[fn](acc, x)
            return acc
        return "reduce", [("fn", fn), init, v], f
    if which == "reduce2":
        def f():
            if not a:
                return None
            acc = a[0]
            for x in a[1:]:
                acc = FN[fn](acc, x)
            return acc
        return "reduce2", [("fn", fn), v], f
    if which == "accumulate":
        def f():
            acc, out = 0, []
            for x in a:
                acc = FN[fn](acc, x)
                out.append(acc)
            return out
        return "accumulate", [("fn", fn), 0, v], f
    if which == "accumulate2":
        def f():
            out = []
            for i, x in enumerate(a):
                out.append(x if i == 0 else FN[fn](out[-1], x))
            return out
        return "accumulate2", [("fn", fn), v], f
    s = gen_bytes(rng, 0, 6)
    return "map", [("fn", "dbl"), as_byteslike(rng, s)], lambda: [2 * c for c in s]


def c_sort(rng):
    n = rng.choice([0, 1, 2, 3, 5, 8, 13, 21, 40])
    a = [rng.choice([rng.randrange(-5, 20), rng.randrange(0, 4)]) for _ in range(n)]
    which = rng.choice(["sort", "sort", "sorted", "sort-by", "sorted-by", "sort-cmp", "sorted-cmp", "sort-weird"])
    if which == "sort":
        return "sort", [list(a)], lambda: ("mut", sorted(a), [sorted(a)])
    if which == "sorted":
        return "sorted", [as_seq(rng, a)], lambda: sorted(a)
    if which in ("sort-by", "sorted-by"):
        fn = rng.choice(["neg", "mod3", "identity"])
        keyf = FN[fn]
        def f():
            return ("sortcheck", a, lambda x, y: keyf(x) < keyf(y), which == "sort-by")
        return which, [("fn", fn), list(a) if which == "sort-by" else as_seq(rng, a)], f
    if which in ("sort-cmp", "sorted-cmp"):
        o = rng.choice(["cmp-desc", "cmp-asc", "cmp-mod3"])
        before = {"cmp-desc": lambda x, y: x > y, "cmp-asc": lambda x, y: x < y, "cmp-mod3": lambda x, y: math.fmod(x, 3) < math.fmod(y, 3)}[o]
        name = "sort" if which == "sort-cmp" else "sorted"
        return name, [list(a) if name == "sort" else as_seq(rng, a), ("fn", o)], lambda: ("sortcheck", a, before, name == "sort")
    o = rng.choice(["cmp-true", "cmp-false", "cmp-flip"])
    return "sort", [list(a), ("fn", o)], lambda: ("permcheck", a)


import ctypes
_libc = ctypes.CDLL("libc.so.6")


def c_snprintf(spec, conv, arg):
    """The documented meaning of the numeric/%s/%c directives is C's printf: ask libc."""
    buf = ctypes.create_string_buffer(600)
    if conv in "dixXo":
        f = spec[:-1] + "ll" + conv
        n = _libc.snprintf(buf, 600, f.encode(), ctypes.c_longlong(arg))
    elif conv in "feEgG":
        n = _libc.snprintf(buf, 600, spec.encode(), ctypes.c_double(arg))
    elif conv == "s":
        n = _libc.snprintf(buf, 600, spec.encode(), ctypes.c_char_p(arg))
    else:
        n = _libc.snprintf(buf, 600, spec.encode(), ctypes.c_int(arg))
    return buf.raw[:n]


def fmt_cases(rng):
    """string/format with C-like directives compared with Python's % operator (same meaning as C printf here)."""
    flags = "".join(rng.sample("-+ #0", rng.choice([0, 0, 1, 2])))
    width = rng.choice(["", "", "1", "5", "12"])
    prec = rng.choice(["", "", ".0", ".1", ".3", ".10"])
    conv = rng.choice("dixXofeEgGsc")
    if conv in "dixXo":
        arg = rng.choice([0, 1, -1, 255, 256, 65535, 2 ** 31 - 1, -2 ** 31, 12345, -999])
        if conv in "xXo" and arg < 0:
            arg = -arg
        if conv in "xXo":
            flags = flags.replace("+", "").replace(" ", "")   # C ignores sign flags for unsigned conversions
        if conv in "di":
            flags = flags.replace("#", "")
    elif conv in "feEgG":
        arg = rng.choice([0.0, 1.0, -1.5, 3.14159, 1e10, 1e-5, 123456.789, 0.1, 1e100, -2.5, 100.0, 0.5])
    elif conv == "s":
        arg = gen_bytes(rng, 0, 6).replace(b"\x00", b"z").replace(b"\xff", b"y")
        flags = flags.replace("+", "").replace(" ", "").replace("#", "").replace("0", "")
    else:
        arg = rng.choice([65, 97, 48, 126, 32])
        flags = flags.replace("+", "").replace(" ", "").replace("#", "").replace("0", "")
        prec = ""
    spec = "%" + flags + width + prec + conv
    lit1 = rng.choice(["", "x=", "[", "100%% "])
    lit2 = rng.choice(["", "]", " end"])
    fmt = lit1 + spec + lit2
    which = rng.choice(["string/format", "buffer/format"])
    def f():
        txt = (lit1.replace("%%", "%").encode() + c_snprintf(spec, conv, arg) + lit2.encode()).decode("latin1")
        if which == "buffer/format":
            return ("mut", Buf(b"pre:" + txt.encode("latin1")), None)
        return txt.encode("latin1")
    if which == "buffer/format":
        return which, [Buf(b"pre:"), fmt.encode(), arg], f
    return which, [fmt.encode(), arg], f


def fmt_long(rng):
    """items around the formatter's internal item limit: exact text, or an error once too long - never a truncated/garbled item."""
    prec = rng.choice([0, 17, 60, 99])
    target = rng.randrange(248, 264)
    k = max(1, target - prec - (1 if prec else 0) - 1)
    arg = float(10 ** k) if rng.random() < 0.5 else 2.0 ** int(k * 3.3219)
    spec = "%%.%df" % prec
    def f():
        txt = c_snprintf(spec, "f", arg)
        if len(txt) >= 250:
            return ("either-err", txt)
        return txt
    return "string/format", [spec.encode(), arg], f


def fmt_errors(rng):
    which = rng.choice(["missing", "extra", "badconv", "long"])
    if which == "missing":
        return "string/format", [b"%d %d", 1], lambda: (_ for _ in ()).throw(Raise())
    if which == "extra":
        def f():
            raise Skip()
        return "string/format", [b"%d", 1, 2], f
    if which == "badconv":
        return "string/format", [b"%y", 1], lambda: (_ for _ in ()).throw(Raise())
    return "string/format", [("%" + "0" * 40 + "d").encode(), 1], lambda: (_ for _ in ()).throw(Raise())


def c_alias(rng):
    """self-aliasing buffer operations."""
    b = gen_bytes(rng, 1, 10)
    which = rng.choice(["push", "blit", "format", "push-string", "concat"])
    if which == "push":
        return "ALIAS (fn [b] (buffer/push b b))", [Buf(b)], lambda: ("mut", Buf(b + b), [Buf(b + b)])
    if which == "push-string":
        return "ALIAS (fn [b] (buffer/push-string b b \"|\" b))", [Buf(b)], lambda: ("mut", Buf(b + b + b"|" + b + b + b"|"), [Buf(b + b + b"|" + b + b + b"|")])
    if which == "blit":
        at = rng.choice([0, min(1, len(b)), len(b), len(b) // 2])
        r = bytearray(b)
        chunk = bytes(b)
        if at + len(chunk) > len(r):
            r.extend(b"\0" * (at + len(chunk) - len(r)))
        r[at:at + len(chunk)] = chunk
        return "ALIAS (fn [b] (buffer/blit b b %d))" % at, [Buf(b)], lambda: ("mut", Buf(bytes(r)), [Buf(bytes(r))])
    if which == "format":
        t = b.replace(b"\x00", b"z")
        d = rng.choice(["s", "s", "V", "v", "q", "p", "j", "m"])
        if d != "s":
            # janet-specific directives: only memory safety is judged (the sanitizer build decides)
            def f():
                raise Skip()
            return "ALIAS (fn [b] (buffer/format b \"<%" + d + ">\" b) nil)", [Buf(t)], lambda: ("mut", None, [None])
        # arguments are read when their directive is reached: the "<" already pushed is part of b by then
        seq = t + b"<" + t + b"<" + b">"
        return "ALIAS (fn [b] (buffer/format b \"<%s>\" b))", [Buf(t)], lambda: ("mut", Buf(seq), [Buf(seq)])
    a = gen_ints(rng, 1, 5)
    return "ALIAS (fn [a] (array/concat a a))", [list(a)], lambda: ("mut", a + a, [a + a])


GENS = [(c_string_find, 10), (c_string_replace, 8), (c_string_split, 8), (c_string_join, 4), (c_string_slice, 8), (c_string_trim, 5), (c_string_misc, 8),
        (c_take_drop, 6), (c_take_while, 4), (c_partition, 4), (c_interleave, 8), (c_range, 4), (c_minmax, 10), (c_mapreduce, 8), (c_sort, 10),
        (fmt_cases, 12), (fmt_long, 2), (fmt_errors, 1), (c_alias, 4), (c_buffer_bits, 5)]
_WEIGHTED = [g for g, w in GENS for _ in range(w)]


def emit_arg(a):
    if isinstance(a, tuple) and len(a) == 2 and a[0] == "fn":
        return a[1]
    return emit(a)


def canon_arg(a):
    if isinstance(a, tuple) and len(a) == 2 and a[0] == "fn":
        return "<function>"
    return canon(a)


def run(ctx):
    exe = build.janet("asan")
    quick = ctx.tier == "quick"
    total = 60000 if quick else 3000000
    per = 400
    ctx.rule = ("generated calls of ~90 string/buffer/array/tuple/sequence functions with byte strings over {a,b,NUL,0xFF}, empty and self-overlapping "
                "patterns, start/end indices in -len-2..len+2 plus nil/fractional/huge, strings/symbols/keywords/buffers interchangeably, self-aliasing "
                "buffer operations, printf directives x flags x width x precision (numeric ones compared with C-printf meaning via Python %), "
                "comparators incl. keyed and weak orders; non-trivial = call with an empty, aliased, negative-index or boundary-length argument, or a "
                "documented error; distinct by (function, canonical arguments)")
    ctx.assumptions = ["reference definitions in this file follow the docstrings; unstable sort is judged as ordered permutation, not exact sequence",
                       "inconsistent comparators: only permutation-or-error and memory safety are required"]
    nb = (total + per - 1) // per

    def do_batch(bi):
        rng = random.Random(ctx.sub_seed("b", bi))
        lines = [PRELUDE]
        exp = {}
        for ci in range(per):
            g = rng.choice(_WEIGHTED)
            try:
                fname, args, thunk = g(rng)
            except (IndexError, ValueError):
                continue
            cid = "c%d" % ci
            try:
                want = thunk()
                err = False
            except Raise:
                want, err = None, True
            except Skip:
                continue
            except (OverflowError, ZeroDivisionError, TypeError, ValueError):
                continue
            fexpr = fname[6:] if fname.startswith("ALIAS ") else fname
            lines.append('(showcase "%s" %s @[%s])' % (cid, fexpr, " ".join(emit_arg(a) for a in args)))
            exp[cid] = (fname, args, want, err)
        script = "\n".join(lines) + "\n"
        d = core.case_dir()
        path = os.path.join(d, "batch.janet")
        open(path, "w").write(script)
        res = core.run([exe, path], timeout=600, cpu=300)
        files = {"batch.janet": script}
        usable = ctx.check_result(res, files, where="lib-batch")
        got = {}
        for line in res.out.decode(errors="replace").splitlines():
            p = line.split(" ", 1)
            if len(p) == 2 and p[0][:1] == "c":
                got[p[0]] = p[1]
        core.discard(res)
        for cid, (fname, args, want, err) in exp.items():
            call = "(%s %s)" % (fname, " ".join(emit_arg(a) for a in args))
            single = {"case.janet": PRELUDE + '(showcase "%s" %s @[%s])\n' % (cid, fname[6:] if fname.startswith("ALIAS ") else fname, " ".join(emit_arg(a) for a in args))}
            short = fname.split(" ")[0] if not fname.startswith("ALIAS") else "alias:" + fname.split("(")[2].split(" ")[0]
            if cid not in got:
                if usable:
                    ctx.violation("no-output:" + short, "no output for " + call, single)
                else:
                    ctx.violation("crash-at:" + short, "process ended at " + call, dict(single, **files))
                break
            ctx.evals()
            ctx.count(short)
            res_txt, _, args_txt = got[cid].partition(" | ")
            argcanon = [canon_arg(a) for a in args]
            trivial = not (err or any(x in ("s", "b", "()", "@()") or x.startswith("-") for x in argcanon) or fname.startswith("ALIAS"))
            if not trivial:
                ctx.nontriv((short, tuple(argcanon)))
            if err:
                if res_txt != "err":
                    ctx.violation("must-raise:" + short, "%s returned %s but must raise" % (call, res_txt[:200]), single)
                continue
            args_after = None
            if isinstance(want, tuple) and want and want[0] == "mut":
                args_after = want[2]
                want = want[1]
            if isinstance(want, tuple) and want and want[0] == "either-err":
                if res_txt != "err" and res_txt != "ok " + canon(want[1]):
                    ctx.violation("result:long-item:" + short, "%s gave %s; must raise or give the exact %d-byte text" % (call, res_txt[:80], len(want[1])), single)
                continue
            if isinstance(want, tuple) and want and want[0] in ("sortcheck", "permcheck"):
                judge_sort(ctx, short, call, want, res_txt, single)
                continue
            wtxt = "ok " + canon(want)
            if res_txt != wtxt:
                kind = "raise-mismatch" if res_txt == "err" else "result"
                ctx.violation("%s:%s" % (kind, short), "%s gave %s, reference %s" % (call, res_txt[:300], wtxt[:300]), dict(single, **{"expected.txt": wtxt}))
                continue
            # non-mutation / documented mutation of arguments
            exp_args = [canon_arg(a) for a in (args_after if args_after is not None and len(args_after) == len(args) else args)]
            if args_after is not None and len(args_after) != len(args):
                exp_args = [canon_arg(args_after[0])] + [canon_arg(a) for a in args[1:]]
            got_args = [x for x in args_txt.split(" , ")] if args_txt else []
            if args_after is None and fname not in ("sort", "sort-by", "reverse!", "buffer/format"):
                exp_cmp = [e for e in exp_args]
                got_cmp = [("<function>" if g_.startswith("<function") else g_) for g_ in got_args]
                if args and exp_cmp != got_cmp:
                    ctx.violation("input-mutated:" + short, "%s changed its arguments: before %s after %s" % (call, exp_cmp, got_cmp), single)
            ctx.sample({"call": call[:200], "result": res_txt[:120]}, cap=6)

    core.pmap(do_batch, range(nb))
    arity_memcheck(ctx)


# ---- short and ill-typed argument lists under valgrind memcheck ------------------------------------------------------------------
# ASan cannot see a read of an argument slot that was never passed (it is inside the fiber stack allocation); memcheck can, because a
# fresh fiber's stack is uninitialised. Every C function of the core environment is called in a fresh fiber with argument lists of
# length 0..5 drawn from a palette of types. A memcheck report inside one of the property's families is a violation; reports in other
# functions are listed in the evidence only (no property of this set covers them).
SWEEP = r'''
(def deny (tabseq [n :in (string/split " " (get (dyn :args) 1))] (symbol n) true))
(def seed (scan-number (get (dyn :args) 2)))
(def per (scan-number (get (dyn :args) 3)))
(def rng (math/rng seed))
(def palette [nil 1 -1 0.5 "s" @"b" :k 'sym @[1 2] [1 2] @{:a 1} {:a 1} (fn [&] 1) 1e308 math/nan "" @"" [] @[] true (int/s64 1) 4294967296 -2147483648 -2147483649 (int/u64 "18446744073709551615") math/inf])
(defn pick [] (get palette (math/rng-int rng (length palette))))
(each name (sort (filter symbol? (all-bindings root-env true)))
  (def v (get-in root-env [name :value]))
  (when (and (cfunction? v) (not (get deny name)))
    (def sets @[[]])
    (each p palette (array/push sets [p]))
    (for i 0 per (array/push sets [(pick) (pick)]))
    (for i 0 per (array/push sets [(pick) (pick) (pick)]))
    (for i 0 (math/ceil (/ per 3)) (array/push sets [(pick) (pick) (pick) (pick)]))
    (for i 0 (math/ceil (/ per 3)) (array/push sets [(pick) (pick) (pick) (pick) (pick)]))
    (var i -1)
    (each a sets
      (++ i)
      (eprint "CALL|" name "|" i "|" (string/format "%.60q" a))
      (def fb (fiber/new (fn [] (v ;a)) :tdy))
      (resume fb))))
(eprint "SWEEP-DONE")
(os/exit 0)
'''

SWEEP_DENY = ["os/exit", "os/posix-exec", "os/posix-fork", "os/posix-chroot", "quit", "sandbox", "getline", "stdin", "os/sleep", "ev/sleep", "ev/deadline", "ev/cancel", "ev/thread",
              "os/proc-wait", "os/proc-kill", "os/proc-close", "gcsetinterval", "ffi/call", "ffi/trampoline", "ffi/read", "ffi/write", "ffi/free", "ffi/malloc", "ffi/pointer-buffer",
              "ffi/pointer-cfunction", "ffi/jitfn", "ffi/native", "ffi/lookup", "ffi/close", "native", "ev/take", "ev/give", "ev/select", "ev/rselect", "ev/acquire-lock", "ev/acquire-rlock",
              "ev/acquire-wlock", "ev/release-lock", "ev/release-rlock", "ev/release-wlock", "ev/read", "ev/chunk", "ev/write", "ev/close", "ev/give-supervisor", "net/accept", "net/accept-loop",
              "net/read", "net/chunk", "net/write", "net/recv-from", "net/send-to", "net/flush", "net/close", "net/shutdown", "net/listen", "net/server", "net/connect", "net/address",
              "file/read", "file/write", "file/close", "file/flush", "file/seek", "file/tell", "file/open", "file/temp", "resume", "cancel", "propagate", "yield", "signal", "error", "ev/go",
              "prin", "prinf", "eprin", "eprinf", "xprin", "xprinf", "print", "printf", "eprint", "eprintf", "xprint", "xprintf", "flush", "eflush", "debug/break", "debug/step",
              "verif/stats", "verif/table-check", "os/shell", "os/execute", "os/spawn", "os/rm", "os/rmdir", "os/mkdir", "os/rename", "os/link", "os/symlink", "os/chmod", "os/touch", "os/cd",
              "os/open", "os/pipe", "os/setenv", "os/sigaction", "os/umask", "os/cryptorand", "os/setlocale", "os/isatty", "filewatch/new", "filewatch/listen", "gccollect", "debug/stack",
              "os/clock", "os/time", "os/date", "os/mktime", "os/strftime", "math/seedrandom", "os/realpath", "os/stat", "os/lstat", "os/dir", "os/readlink", "os/environ", "os/getenv"]
FAMILIES = ("string/", "buffer/", "array/", "tuple/", "symbol/", "keyword/", "struct/", "table/")
FAMILY_NAMES = {"slice", "length", "get", "put", "in", "next", "min", "max", "min-of", "max-of", "range", "sort", "apply", "string", "buffer", "symbol", "keyword", "tuple", "array",
                "struct", "table", "describe", "compare", "hash", "type", "scan-number", "memcmp", "bnot", "band", "bor", "bxor", "blshift", "brshift", "brushift"}


def arity_memcheck(ctx):
    import shutil
    if not shutil.which("valgrind"):
        raise core.HarnessError("valgrind not found")
    exe = build.janet("plain")
    quick = ctx.tier == "quick"
    shards = 8 if quick else 64
    per = 6 if quick else 30
    outside = {}

    def one(si):
        d = core.case_dir()
        path = os.path.join(d, "sweep.janet")
        open(path, "w").write(SWEEP)
        res = core.run(["valgrind", "-q", "--num-callers=8", "--error-exitcode=0", exe, path, " ".join(SWEEP_DENY), str(ctx.sub_seed("memcheck", si) % 1000000), str(per)],
                       timeout=(400 if quick else 2400), cwd=d, san=False)
        err = res.err.decode(errors="replace")
        core.discard(res)
        shutil.rmtree(d, ignore_errors=True)
        if "SWEEP-DONE" not in err:
            last = [l for l in err.splitlines() if l.startswith("CALL|")][-1:]
            name = last[0].split("|")[1] if last else "?"
            if res.timed_out or res.sig == 9:      # SIGKILL comes only from outside (watchdog, OOM killer): never a verdict
                with ctx.lock:
                    ctx.inconclusive.append("memcheck-sweep-watchdog:" + name)
                return
            files = {"sweep.janet": SWEEP, "args.txt": "valgrind -q janet sweep.janet '<SWEEP_DENY>' %d %d" % (ctx.sub_seed("memcheck", si) % 1000000, per), "stderr_tail.txt": err[-3000:]}
            if name.startswith(FAMILIES) or name in FAMILY_NAMES:
                ctx.violation("crash-at:" + name, "process ended (rc=%s sig=%s) in short-argument sweep at %s" % (res.rc, res.sig, last), files)
            else:
                with ctx.lock:
                    outside["crash:" + name] = (last[0] if last else "?")[:200]
            return
        cur = None
        calls = 0
        lines = err.splitlines()
        for i, line in enumerate(lines):
            if line.startswith("CALL|"):
                cur = line
                calls += 1
                continue
            if line.startswith("==") and ("uninitialised" in line or "Invalid read" in line or "Invalid write" in line or "Invalid free" in line or "overlap" in line) and cur:
                name = cur.split("|")[1]
                stack = "\n".join(lines[i:i + 8])
                files = {"sweep.janet": SWEEP, "call.txt": cur, "memcheck.txt": stack,
                         "case.janet": "# valgrind -q janet case.janet\n(def fb (fiber/new (fn [] (%s %s)) :tdy))\n(resume fb)\n" % (name, cur.split("|", 3)[3].strip("()[]") if cur.count("|") >= 3 else "")}
                if name.startswith(FAMILIES) or name in FAMILY_NAMES:
                    ctx.violation("memcheck:" + name, "memcheck: %s during %s" % (line.split("== ", 1)[-1], cur), files)
                else:
                    with ctx.lock:
                        outside["memcheck:" + name] = cur[:200] + " :: " + line.split("== ", 1)[-1]
        ctx.evals(calls)
        ctx.count("memcheck_short_arity_calls", calls)

    core.pmap(one, range(shards))
    ctx.extra["memcheck_reports_outside_property_families"] = outside
    for k, v in sorted(outside.items()):
        print("NOTE C17 memcheck report outside the property's function families (not judged): %s %s" % (k, v))


def parse_canon_ints(txt):
    # "ok @(1 2 3)" or "ok (1 2 3)"
    body = txt[txt.index("(") + 1: txt.rindex(")")]
    return [int(x) for x in body.split()] if body.strip() else []


def judge_sort(ctx, short, call, want, res_txt, single):
    kind, a = want[0], want[1]
    if kind == "permcheck":
        if res_txt == "err":
            return
        try:
            out = parse_canon_ints(res_txt)
        except ValueError:
            ctx.violation("sort-shape:" + short, "%s gave %s" % (call, res_txt[:200]), single)
            return
        if sorted(out) != sorted(a):
            ctx.violation("sort-not-permutation:" + short, "%s gave %s" % (call, res_txt[:200]), single)
        return
    before = want[2]
    if res_txt == "err":
        ctx.violation("raise-mismatch:" + short, "%s raised" % call, single)
        return
    try:
        out = parse_canon_ints(res_txt)
    except ValueError:
        ctx.violation("sort-shape:" + short, "%s gave %s" % (call, res_txt[:200]), single)
        return
    if sorted(out) != sorted(a):
        ctx.violation("sort-not-permutation:" + short, "%s gave %s" % (call, res_txt[:200]), single)
    elif any(before(out[i + 1], out[i]) for i in range(len(out) - 1)):
        ctx.violation("sort-not-ordered:" + short, "%s gave %s" % (call, res_txt[:200]), single)
