"""C06 — channels conserve values, keep order, respect capacity and lose no wakeups.

Each generated single-threaded program logs CALL/RET events at the client boundary
(one global step counter, stderr, unbuffered); the recorded history is checked by
the trace acceptor in vf/model_chan.py."""
import os
import random
import re

from vf import build, core, model_chan

LEVEL = "exploration"

PRELUDE = r'''
(var STEP 0)
(def NAMES @{})
(defn cname [c] (get NAMES c "?"))
(defn show [r]
  (cond
    (nil? r) "nil"
    (number? r) (string r)
    (abstract? r) (string "chan:" (cname r))
    (tuple? r) (case (r 0)
                 :take (string "take:" (cname (r 1)) ":" (r 2))
                 :give (string "give:" (cname (r 1)))
                 :close (string "close:" (cname (r 1)))
                 "?tuple")
    (boolean? r) (string r)
    (string "?" (type r))))
(defn ev-call [fid opidx desc] (eprint "E " (++ STEP) " C " fid " " opidx " " desc))
(defn ev-ret [fid opidx r] (eprint "E " (++ STEP) " R " fid " " opidx " " r))
(defmacro op [fid opidx desc form]
  ~(do (,ev-call ,fid ,opidx ,desc)
     (def r (try (,show ,form) ([e] "err")))
     (,ev-ret ,fid ,opidx r)))
(defn done [fid] (eprint "E " (++ STEP) " D " fid " 0 done"))
# Quiescence monitor (logical, not wall-clock): every other fiber blocks only on channels or on (ev/sleep 0);
# when the step counter has not moved across several of the monitor's own zero-sleeps, nothing is runnable.
(defn monitor [nfibers]
  (var last -1)
  (var same 0)
  (while (< same 4)
    (ev/sleep 0)
    (if (= last STEP) (++ same) (do (set same 0) (set last STEP))))
  (eprint "Q " STEP)
  (os/exit 0))
'''


def gen_program(rng, nofselgive):
    nch = rng.choice([1, 1, 2, 2, 3])
    caps = {"C%d" % i: rng.choice([0, 0, 1, 1, 2]) for i in range(nch)}
    nf = rng.choice([2, 2, 3, 3, 4, 5, 6] if rng.random() < 0.7 else [2, 3])
    fibers = []
    vid = [0]
    for f in range(nf):
        ops = []
        for o in range(rng.choice([1, 2, 2, 3, 3, 4, 5, 6])):
            k = rng.random()
            ch = rng.choice(list(caps))
            if k < 0.33:
                vid[0] += 1
                ops.append(("give", ch, f * 1000 + vid[0]))
            elif k < 0.66:
                ops.append(("take", ch))
            elif k < 0.82:
                cls = []
                used = set()
                for _ in range(rng.choice([1, 2, 2, 3])):
                    c2 = rng.choice(list(caps))
                    if c2 in used:
                        continue
                    used.add(c2)
                    if rng.random() < (0.0 if nofselgive else 0.45):
                        vid[0] += 1
                        cls.append(("give", c2, f * 1000 + vid[0]))
                    else:
                        cls.append(("take", c2))
                ops.append(("select" if rng.random() < 0.7 else "rselect", cls))
            elif k < 0.88:
                ops.append(("close", ch))
            elif k < 0.94:
                ops.append(("yield",))
            elif k < 0.97:
                ops.append(("count", ch))
            else:
                ops.append(("full", ch))
        fibers.append(ops)
    return caps, fibers


def emit_program(caps, fibers):
    lines = [PRELUDE]
    for c, cap in caps.items():
        lines.append("(def %s (ev/chan %d)) (put NAMES %s \"%s\")" % (c, cap, c, c))
    for fid, ops in enumerate(fibers):
        body = []
        for oi, op in enumerate(ops):
            k = op[0]
            if k == "give":
                body.append('(op %d %d "give %s %d" (ev/give %s %d))' % (fid, oi, op[1], op[2], op[1], op[2]))
            elif k == "take":
                body.append('(op %d %d "take %s" (ev/take %s))' % (fid, oi, op[1], op[1]))
            elif k in ("select", "rselect"):
                desc = " ".join(("t:%s" % c[1]) if c[0] == "take" else ("g:%s:%d" % (c[1], c[2])) for c in op[1])
                args = " ".join(c[1] if c[0] == "take" else "[%s %d]" % (c[1], c[2]) for c in op[1])
                body.append('(op %d %d "%s %s" (ev/%s %s))' % (fid, oi, k, desc, k, args))
            elif k == "close":
                body.append('(op %d %d "close %s" (ev/chan-close %s))' % (fid, oi, op[1], op[1]))
            elif k == "yield":
                body.append('(op %d %d "yield" (ev/sleep 0))' % (fid, oi))
            elif k == "count":
                body.append('(op %d %d "count %s" (ev/count %s))' % (fid, oi, op[1], op[1]))
            elif k == "full":
                body.append('(op %d %d "full %s" (ev/full %s))' % (fid, oi, op[1], op[1]))
        lines.append("(ev/spawn %s (done %d))" % (" ".join(body), fid))
    lines.append("(ev/spawn (monitor %d))" % len(fibers))
    return "\n".join(lines) + "\n"


EV_RE = re.compile(r"^E (\d+) ([CRD]) (\d+) (\d+) (.*)$")


def parse_events(err_text):
    evs = []
    other = []
    for line in err_text.splitlines():
        m = EV_RE.match(line)
        if not m:
            if line.startswith("Q "):
                continue
            if line.strip():
                other.append(line)
            continue
        t = m.group(2)
        e = dict(step=int(m.group(1)), t=t, fid=int(m.group(3)), opidx=int(m.group(4)))
        rest = m.group(5)
        if t == "C":
            parts = rest.split(" ")
            kind = parts[0]
            e["kind"] = kind
            if kind == "give":
                e["args"] = (parts[1], int(parts[2]))
            elif kind in ("take", "close", "count", "full"):
                e["args"] = (parts[1],)
            elif kind in ("select", "rselect"):
                cls = []
                for p in parts[1:]:
                    q = p.split(":")
                    cls.append(("take", q[1]) if q[0] == "t" else ("give", q[1], int(q[2])))
                e["args"] = cls
            else:
                e["args"] = ()
        elif t == "R":
            r = rest
            if r.startswith("take:"):
                q = r.split(":")
                r = "take:%s:%s" % (q[1], q[2])
            e["result"] = r
        evs.append(e)
    return evs, other


def classify(prog_fibers, v):
    has_selgive = any(op[0] in ("select", "rselect") and any(c[0] == "give" for c in op[1]) for ops in prog_fibers for op in ops)
    has_sel = any(op[0] in ("select", "rselect") for ops in prog_fibers for op in ops)
    return v.rule + (":with-select-give-clause" if has_selgive else (":with-select" if has_sel else ""))


def run_one(ctx, exe, seed, idx, nofselgive, env=None):
    rng = random.Random(seed)
    caps, fibers = gen_program(rng, nofselgive)
    script = emit_program(caps, fibers)
    d = core.case_dir()
    path = os.path.join(d, "prog.janet")
    open(path, "w").write(script)
    res = core.run([exe, path], timeout=20, cpu=10, env=env or {})
    files = {"prog.janet": script}
    core.discard(res)
    ctx.evals()
    if res.timed_out:
        # blocked in the event loop although every fiber either finished or is parked: re-run once alone before concluding
        res2 = core.run([exe, path], timeout=20, cpu=10, env=env or {})
        core.discard(res2)
        if res2.timed_out:
            evs, _ = parse_events(res2.err.decode(errors="replace"))
            try:
                model_chan.check_history(caps, evs)
                ctx.violation("not-terminated" + (":with-select-give-clause" if not nofselgive else ""), "process still running after 20 s although the history is accepted", dict(files, **{"events.txt": res2.err[-4000:]}))
            except model_chan.Violation as v:
                ctx.violation(classify(fibers, v) + ":hang", v.detail, dict(files, **{"events.txt": res2.err[-4000:]}))
            except model_chan.Ambiguous:
                ctx.count("ambiguous")
            return
        res = res2
    if not ctx.check_result(res, files, where="prog"):
        return
    evs, other = parse_events(res.err.decode(errors="replace"))
    if other:
        ctx.violation("unexpected-stderr", "program printed %r" % other[:3], dict(files, **{"stderr.txt": res.err[-3000:]}))
        return
    if res.rc != 0:
        ctx.violation("nonzero-exit", "exit status %s" % res.rc, files)
        return
    try:
        st = model_chan.check_history(caps, evs)
    except model_chan.Violation as v:
        ctx.violation(classify(fibers, v), v.detail, dict(files, **{"events.txt": res.err}))
        return
    except model_chan.Ambiguous:
        ctx.count("ambiguous")
        return
    ctx.count("events", len(evs))
    if st["parked_completed"] >= 1:
        ctx.nontriv(st["state_seq_hash"])
    ctx.count("parked_then_completed", st["parked_completed"])
    ctx.sample({"caps": caps, "fibers": [[list(o) if not isinstance(o, tuple) else o for o in ops] for ops in fibers][:3], "events": len(evs)}, cap=3)
    return st


def run(ctx):
    exe = build.janet("plain")
    quick = ctx.tier == "quick"
    total = 10000 if quick else 200000
    ctx.rule = ("random programs of 2-6 fibers x 1-6 operations over 1-3 channels with capacities 0..2: give, take, select/rselect with mixed take and give "
                "clauses, close at any position, ev/sleep 0 yields, count/full observers; every given value is unique; half of the programs contain no "
                "select give clause (so the known defects of that feature cannot mask the rest); non-trivial = at least one operation parked and was later "
                "completed by another fiber; distinct by the sequence of model states")
    ctx.assumptions = ["single-threaded cooperative scheduling makes the stderr event log a total order", "the acceptor demands immediate completion only of give/close/count/full "
                       "and of rselect when several clauses are enabled; take and select may complete through the scheduler",
                       "a sample also runs on the ASan build with the always-collect GC schedule"]
    exe_asan = build.janet("asan") if not quick else None
    seeds = [ctx.sub_seed("p", i) for i in range(total)]
    states = set()

    def one(i):
        env = None
        e = exe
        if exe_asan and i % 100 == 0:
            e = exe_asan
            env = {"JANET_VERIF_GC": "always"}
        st = run_one(ctx, e, seeds[i], i, nofselgive=(i % 2 == 0), env=env)
        if st:
            states.add(st["state_seq_hash"])

    core.pmap(one, range(total))
    ctx.extra["states"] = len(states)
