"""C19 — arbitrarily deep nesting or recursion yields an error, not a crash.

Monitor: each (consumer, depth) runs in its own process of the plain -O2 build with
the default 8 MB native stack; nested inputs are built iteratively. The process must
end with a marker printed from inside `try` (DONE or CAUGHT); death by signal or an
exit that `try` could not intercept is a violation."""
import os
import signal

from vf import build, core

LEVEL = "exploration"

PRELUDE = r'''
(def D (scan-number (get (dyn :args) 1)))
(defn nest-tuple [d] (var t []) (repeat d (set t [t])) t)
(defn nest-array [d] (var t @[]) (repeat d (set t @[t])) t)
(defn nest-struct [d] (var t {}) (repeat d (set t {:a t})) t)
(defn nest-table [d] (var t @{}) (repeat d (set t @{:a t})) t)
(defn nest-mixed [d] (var t [1]) (for i 0 d (set t (case (% i 4) 0 [t] 1 @[t] 2 {:k t} @{:k t}))) t)
(defn nest-form [d head leaf] (var t leaf) (repeat d (set t (tuple head t))) t)
(defn proto-chain [d] (var t @{:base 1}) (repeat d (set t (table/setproto @{} t))) t)
(defn sproto-chain [d] (var t {:base 1}) (repeat d (set t (struct/with-proto t :x 1))) t)
(defn corrupt [& msg] (eprint "CORRUPT " ;msg) (os/exit 3))
(defn churn [] (var keep nil) (repeat 30000 (set keep [(array/new 3) @{:a 1} (string "x" (length "y"))])) nil)
(defn walk-mixed [x d]
  # check every level of (nest-mixed d) from the outside in
  (var t x) (var i (- d 1))
  (while (>= i 0)
    (def expect (case (% i 4) 0 :tuple 1 :array 2 :struct :table))
    (unless (= (type t) expect) (corrupt "level " i ": type " (type t) ", built as " expect))
    (unless (= 1 (length t)) (corrupt "level " i ": length " (length t)))
    (set t (if (or (= expect :tuple) (= expect :array)) (in t 0) (in t :k)))
    (-- i))
  (unless (= t [1]) (corrupt "leaf is " (type t))))
(defn walk-chain [x d kind key]
  (var t x) (var i d)
  (while (> i 0)
    (unless (= (type t) kind) (corrupt "level " i ": type " (type t)))
    (unless (= 1 (length t)) (corrupt "level " i ": length " (length t)))
    (set t (in t key))
    (-- i))
  (unless (and (= (type t) kind) (= 0 (length t))) (corrupt "innermost is " (type t) " of length " (length t))))
(defmacro run-case [& body]
  ~(do
     (def r (try (do ,;body :ok) ([e f] (string "CAUGHT " (string/slice (string e) 0 (min 80 (length (string e))))))))
     (eprint (if (= r :ok) "DONE" r))
     (os/exit 0)))
'''

# name -> janet body using D. Bodies must not print large values.
CONSUMERS = {
    "parse-parens": '(parse (string (string/repeat "(" D) (string/repeat ")" D)))',
    "parse-brackets": '(parse (string (string/repeat "@[" D) (string/repeat "]" D)))',
    "parse-structs": '(parse (string (string/repeat "{:a " D) "1" (string/repeat "}" D)))',
    "parse-quotes": '(parse (string (string/repeat "\'" D) "x"))',
    "parser-consume-unclosed": '(def p (parser/new)) (parser/consume p (string/repeat "(" D)) (parser/eof p) (parser/status p)',
    "compile-nested-do": '(compile (nest-form D \'do 1))',
    "eval-nested-plus": '(eval (nest-form D \'+ 1))',
    "compile-nested-fn": "(var t 1) (repeat D (set t (tuple 'fn [] t))) (compile t)",
    "compile-nested-quasiquote": "(var t 'x) (repeat D (set t (tuple 'quasiquote t))) (compile t)",
    "compile-qq-unquote-alternation": "(var t 'x) (repeat D (set t (tuple 'quasiquote (tuple (tuple 'unquote t))))) (compile t)",
    "compile-nested-data-quote": "(compile (tuple 'quote (nest-tuple D)))",
    "compile-deep-destructure-def": "(var t 'a) (repeat D (set t (tuple/brackets t))) (compile (tuple 'def t 1))",
    "compile-deep-destructure-struct": "(var t 'a) (repeat D (set t (struct :k t))) (compile (tuple 'def t 1))",
    "compile-deep-destructure-fn-param": "(var t 'a) (repeat D (set t (tuple/brackets t))) (compile (tuple 'fn (tuple/brackets t) 1))",
    "compile-deep-destructure-let": "(var t 'a) (repeat D (set t (tuple/brackets t 'b))) (compile (tuple 'let (tuple/brackets t 1) 1))",
    "compile-long-do": "(compile (tuple 'do ;(seq [i :range [0 (min D 200000)]] i)))",
    "compile-long-and": "(compile (tuple 'and ;(seq [i :range [0 (min D 5000)]] true)))",
    "macex-self-expanding": ("(defmacro m [n] (if (> n 0) (tuple 'm (- n 1)) 0))", "(macex (tuple 'm D))"),
    "eval-self-expanding": ("(defmacro m [n] (if (> n 0) (tuple 'm (- n 1)) 0))", "(eval (tuple 'm D))"),
    "eval-nested-macro-body": ("(defmacro w [x] (tuple 'do x))", "(eval (nest-form D 'w 1))"),
    "compile-qq-deep-alternation": "(var t 'x) (repeat (max 1 (div D 1000)) (var u (tuple 'unquote t)) (repeat 1000 (set u (tuple u))) (set t (tuple 'quasiquote u))) (compile t)",
    # many quasiquote/unquote cycles, each just under the per-form limit: the remaining compiler depth, not a fresh budget, must bound the total
    "compile-qq-many-cycles": "(var t 'x) (repeat (max 1 (div D 200)) (var u (tuple 'unquote t)) (repeat 900 (set u (tuple u))) (set t (tuple 'quasiquote u))) (compile t)",
    "compile-qq-many-cycles-short": "(var t 'x) (repeat (max 1 (div D 20)) (var u (tuple 'unquote t)) (repeat 90 (set u (tuple u))) (set t (tuple 'quasiquote u))) (compile t)",
    "compile-deep-data-in-quasiquote": "(compile (tuple 'quasiquote (nest-tuple D)))",
    "compile-deep-splice": "(var t 'x) (repeat D (set t (tuple 'quasiquote (tuple (tuple 'splice (tuple 'quote (tuple t))))))) (compile t)",
    "equal-deep-tuples": "(= (nest-tuple D) (nest-tuple D))",
    "compare-deep-tuples": "(compare (nest-tuple D) (nest-tuple D))",
    "hash-deep-struct": "(hash (nest-struct D))",
    "equal-deep-structs": "(= (nest-struct D) (nest-struct D))",
    "deep-equal-arrays": "(deep= (nest-array D) (nest-array D))",
    "freeze-deep": "(freeze (nest-array D))",
    "thaw-deep": "(thaw (nest-tuple D))",
    "postwalk-deep": "(postwalk identity (nest-tuple D))",
    "flatten-deep": "(flatten (nest-array D))",
    "format-p": '(string/format "%p" (nest-tuple D))',
    "format-j": '(string/format "%j" (nest-array D))',
    "format-j-table-chain": '(string/format "%j" (nest-table D))',
    "format-j-struct-chain": '(string/format "%j" (nest-struct D))',
    "format-j-cyclic-table": '(def t @{}) (var c t) (repeat (min D 50) (def n @{}) (put c :next n) (set c n)) (put c :next t) (string/format "%j" t)',
    "format-p-table-chain": '(string/format "%p" (nest-table D))',
    "format-n-deep": '(string/format "%n %N" (nest-mixed D) (nest-array D))',
    "format-M-deep": '(string/format "%M" (nest-table D))',
    "format-q": '(string/format "%q" (nest-mixed D))',
    "format-m": '(string/format "%m" (nest-table D))',
    "format-v": '(string/format "%v" (nest-struct D))',
    "describe-deep": "(describe (nest-mixed D))",
    "pp-deep": "(with-dyns [:out @\"\"] (pp (nest-mixed D)))",
    "format-p-cyclic": '(def t @{}) (var c t) (repeat (min D 2000) (def n @{}) (put c :next n) (set c n)) (put c :next t) (string/format "%p" t)',
    "marshal-deep": "(marshal (nest-array D))",
    "marshal-deep-tuple-struct": "(marshal (nest-mixed D))",
    "marshal-unmarshal-deep": "(unmarshal (marshal (nest-array (min D 900))))",
    "unmarshal-handbuilt-deep-arrays": '(def b @"") (repeat D (buffer/push b "\\xD1\\x01")) (buffer/push b "\\xC9") (unmarshal b)',
    "unmarshal-handbuilt-deep-tuples": '(def b @"") (repeat D (buffer/push b "\\xD2\\x01\\x00")) (buffer/push b "\\xC9") (unmarshal b)',
    "unmarshal-handbuilt-deep-channels": '(def b @"\\xD9\\xCF\\x0ccore/channel\\0\\0\\x01\\x01") (repeat D (buffer/push b "\\xD9\\xDA\\0\\0\\0\\x01\\x01")) (buffer/push b "\\xD9\\xDA\\0\\0\\0\\x01\\0") (unmarshal b)',
    "marshal-deep-channels": "(var c (ev/chan 1)) (repeat (min D 100000) (def o (ev/chan 1)) (ev/give o c) (set c o)) (marshal c)",
    "gc-deep-arrays": "(def x (nest-array D)) (gccollect) (length x)",
    "gc-deep-linked-tables": "(def x (nest-table D)) (gccollect) (gccollect) (length x)",
    "gc-deep-mixed-walk": "(def x (nest-mixed D)) (gccollect) (churn) (gccollect) (walk-mixed x D)",
    "gc-deep-arrays-walk": "(def x (nest-array D)) (gccollect) (churn) (gccollect) (walk-chain x D :array 0)",
    "gc-deep-tables-walk": "(def x (nest-table D)) (gccollect) (churn) (gccollect) (walk-chain x D :table :a)",
    "gc-deep-structs-walk": "(def x (nest-struct D)) (gccollect) (churn) (gccollect) (walk-chain x D :struct :a)",
    "gc-deep-tuples-walk": "(def x (nest-tuple D)) (gccollect) (churn) (gccollect) (walk-chain x D :tuple 0)",
    "gc-deep-closures": "(var f (fn [] 0)) (repeat (min D 200000) (let [g f] (set f (fn [] (g))))) (gccollect) (type f)",
    "proto-cycle": ("(defn cyc [n] (def ts (seq [i :range [0 (max 1 (min n 5000))]] @{i i})) (for i 0 (length ts) (table/setproto (ts i) (ts (% (+ i 1) (length ts))))) (ts 0))",
                    "(def t (cyc D)) (get t :missing) (in t 0) (table/proto-flatten t) (length (marshal t)) (string/format \"%p %j\" t 1) (= t (table/clone t)) (deep= t (table/clone t)) (hash t) (gccollect) (length t)"),
    "proto-chain-lookup": "(def t (proto-chain D)) (get t :base) (get t :missing)",
    "proto-chain-flatten": "(table/proto-flatten (proto-chain D))",
    "proto-chain-marshal": "(marshal (proto-chain D))",
    "proto-chain-gc": "(def t (proto-chain D)) (gccollect) (length t)",
    "proto-chain-print": '(string/format "%p" (proto-chain D))',
    "struct-proto-chain": "(def s (sproto-chain (min D 100000))) (get s :base) (= s s) (hash s) (marshal s)",
    "peg-compile-nested": "(peg/compile (nest-form D '* \"a\"))",
    "peg-match-recursive": '(peg/match ~{:main (+ (* "(" :main ")") "")} (string (string/repeat "(" D) (string/repeat ")" D)))',
    "peg-match-recursive-with-not": '(peg/match ~{:main (+ (* (not "x") "(" :main ")") "")} (string (string/repeat "(" D) (string/repeat ")" D)))',
    "peg-match-recursive-after-not-loop": '(peg/match ~{:main (* (any (* (not "(") 1)) :nest) :nest (+ (* "(" :nest ")") "")} (string (string/repeat "a" (* 8 D)) (string/repeat "(" D) (string/repeat ")" D)))',
    "peg-match-recursive-after-loops": '(peg/match ~{:main (* (any (if-not "(" 1)) (any (+ "zz" (* (not "q") "(" (look 0 "("))))  (some (* (! ")") (? "(") )) :nest) :nest (+ (* "(" :nest ")") "")} (string (string/repeat "a" (* 4 D)) (string/repeat "(" D) (string/repeat ")" D)))',
    "peg-match-deep-grammar": "(peg/match (peg/compile (nest-form (min D 5000) 'group \"a\")) \"a\")",
    "recursion-non-tail": "(defn f [n] (if (= n 0) 0 (+ 1 (f (- n 1))))) (f D)",
    "recursion-non-tail-bigstack": "(defn f [n] (if (= n 0) 0 (+ 1 (f (- n 1))))) (fiber/setmaxstack (fiber/current) 100000000) (f D)",
    "recursion-through-c-replace": '(defn f [n] (if (= n 0) "x" (string/replace "a" (fn [_] (f (- n 1))) "a"))) (f D)',
    "recursion-through-c-peg-cmt": '(defn f [n] (if (= n 0) "x" (first (peg/match ~(cmt (<- 1) ,(fn [_] (f (- n 1)))) "a")))) (f D)',
    "recursion-through-method": "(def o (table/setproto @{} @{:+ (fn [a b] (if (= b 0) 0 (+ a (- b 1))))})) (+ o D)",
    "nested-fibers-resume": "(defn f [n] (if (= n 0) 0 (resume (fiber/new (fn [] (f (- n 1))))))) (f (min D 200000))",
    "nested-try": "(defn f [n] (if (= n 0) (error :bottom) (try (f (- n 1)) ([e] (error e))))) (f (min D 100000))",
    "tail-calls-constant-stack": "(defn lp [n acc] (if (= n 0) acc (lp (- n 1) (+ acc 1)))) (fiber/setmaxstack (fiber/current) 2000) (assert (= (* 50 D) (lp (* 50 D) 0)))",
    "tail-apply-in-if": "(defn lp [n acc] (if (= n 0) acc (apply lp [(- n 1) (+ acc 1)]))) (fiber/setmaxstack (fiber/current) 2000) (assert (= (* 50 D) (lp (* 50 D) 0)))",
    "tail-apply-in-cond-let-do": "(defn lp [n acc] (cond (= n 0) acc (odd? n) (let [m (- n 1)] (apply lp m [(+ acc 1)])) (do nil (apply lp [(- n 1) (+ acc 1)])))) (fiber/setmaxstack (fiber/current) 2000) (assert (= (* 50 D) (lp (* 50 D) 0)))",
    "tail-splice-call-in-when": "(defn lp [n acc] (if (= n 0) acc (when true (lp ;[(- n 1) (+ acc 1)])))) (fiber/setmaxstack (fiber/current) 2000) (assert (= (* 50 D) (lp (* 50 D) 0)))",
    "tail-call-in-case-and-or": "(defn lp [n acc] (case n 0 acc (or false (and true (lp (- n 1) (+ acc 1)))))) (fiber/setmaxstack (fiber/current) 2000) (assert (= (* 50 D) (lp (* 50 D) 0)))",
    "tail-call-in-try-free-nesting": "(defn lp [n acc] (if (= n 0) acc (do (def k 1) (let [a (+ acc k)] (if (> a -1) (lp (- n 1) a) :never))))) (fiber/setmaxstack (fiber/current) 2000) (assert (= (* 50 D) (lp (* 50 D) 0)))",
    "mutual-tail-calls": "(var ev? nil) (defn od? [n] (if (= n 0) false (ev? (- n 1)))) (set ev? (fn [n] (if (= n 0) true (od? (- n 1))))) (fiber/setmaxstack (fiber/current) 2000) (ev? (* 20 D))",
    "deep-sort-comparator": "(sort (seq [i :range [0 (min D 20000)]] (- i)))",
    "nested-dyns": "(defn f [n] (if (= n 0) (dyn :x) (with-dyns [:x n] (f (- n 1))))) (f (min D 50000))",
}


def run(ctx):
    exe = build.janet("plain")
    quick = ctx.tier == "quick"
    depths = [1, 10, 100, 199, 200, 201, 1000, 1023, 1024, 1025, 2047, 2048, 5000, 10000, 100000] if quick else \
        [1, 2, 5, 10, 20, 50, 100, 197, 198, 199, 200, 201, 202, 203, 500, 1000, 1021, 1022, 1023, 1024, 1025, 1026, 1027, 2000, 2046, 2047, 2048, 2049,
         5000, 10000, 20000, 50000, 100000, 200000, 500000, 1000000]
    ctx.rule = ("consumer x depth: %d recursive consumers (reader, compiler, macro expansion, =, compare, hash, deep=, freeze, walkers, every print directive, "
                "marshal/unmarshal incl. hand-built images, collector, prototype chains, PEG compile/match, non-tail recursion, recursion through C re-entry, "
                "nested fibers/try, tail calls) x depths from 1 to 10^5 (quick) / 10^6 (thorough) incl. the neighbourhood of every guard limit; inputs built "
                "iteratively; non-trivial = depth >= 1000 (a guard had to fire or the structure is far beyond any guard)") % len(CONSUMERS)
    ctx.assumptions = ["plain -O2 build, RLIMIT_STACK 8 MB (the environment users have); ASan would inflate C frames", "out-of-memory and watchdog endings are inconclusive, not violations"]
    d = core.case_dir()
    paths = {}
    texts = {}
    for name, body in CONSUMERS.items():
        pre, body = body if isinstance(body, tuple) else ("", body)
        p = os.path.join(d, name + ".janet")
        texts[name] = PRELUDE + pre + "\n(run-case " + body + ")\n"
        open(p, "w").write(texts[name])
        paths[name] = p
    cases = [(n, dep) for n in CONSUMERS for dep in depths]

    def one(i):
        name, dep = cases[i]
        res = core.run([exe, paths[name], str(dep)], timeout=180, cpu=170, mem_mb=6000, stack_kb=8192, san=False)
        core.discard(res)
        ctx.evals()
        files = {"case.janet": texts[name], "depth.txt": str(dep), "stderr.txt": res.err[-3000:]}
        err = res.err.decode(errors="replace")
        last = err.strip().splitlines()[-1] if err.strip() else ""
        if res.timed_out or (res.sig in (signal.SIGXCPU, signal.SIGKILL)):
            if dep <= 10000 and (res.timed_out or res.sig == signal.SIGXCPU):
                # "either complete or raise": at these sizes 170 CPU-seconds is not slowness; confirm once before calling it a hang
                res2 = core.run([exe, paths[name], str(dep)], timeout=180, cpu=170, mem_mb=6000, stack_kb=8192, san=False)
                core.discard(res2)
                if res2.timed_out or res2.sig == signal.SIGXCPU:
                    ctx.violation("hang:%s" % name, "%s at depth %d neither completed nor raised within 170 CPU-seconds (twice)" % (name, dep), files)
                    return
            with ctx.lock:
                ctx.inconclusive.append("%s@%d:watchdog" % (name, dep))
            return
        if "out of memory" in err.lower() or "failed to allocate" in err.lower():
            ctx.count("out_of_memory_inconclusive")
            return
        if "CORRUPT " in err:
            ctx.violation("corrupt:%s" % name, "%s at depth %d: a reachable nested value changed after collection: %s" % (name, dep, err[err.index("CORRUPT "):][:200]), files)
            return
        if res.sig is not None:
            signame = signal.Signals(res.sig).name
            band = "at-guard" if dep <= 2100 else ("10^4" if dep <= 20000 else ">=10^5")
            ctx.violation("crash:%s:%s:%s" % (name, signame, band), "%s at depth %d died with %s" % (name, dep, signame), files)
            return
        if last.startswith("CAUGHT") and name.startswith(("tail-", "mutual-tail")):
            # "tail calls of any depth run in constant stack space": an error (stack overflow under the tiny fiber stack) is a violation here
            ctx.violation("tail-call-grows-stack:%s" % name, "%s at depth %d raised: %s" % (name, dep, last[:160]), files)
            return
        if last.startswith("DONE") or last.startswith("CAUGHT"):
            ctx.count("done" if last.startswith("DONE") else "caught")
            if dep >= 1000:
                ctx.nontriv((name, dep))
            if last.startswith("CAUGHT"):
                ctx.sample({"consumer": name, "depth": dep, "outcome": last[:100]}, cap=6)
            return
        ctx.violation("uncatchable-exit:%s" % name, "%s at depth %d exited with status %s without reaching its try handler; stderr tail: %s" % (name, dep, res.rc, err[-300:]), files)

    core.pmap(one, range(len(cases)))
