"""C20 — programs end when work is done; steady-state resources stay bounded.

(A) Termination: generated programs mix tasks, sleeps, threads, subprocesses, pipe
transfers, supervisor channels and cancellations; every task prints a unique marker as
its last action and the generator knows which markers must appear. The process must
exit by itself with status 0 and exactly the expected markers: a missing marker with
exit 0 is a premature exit, a process that stays alive after all expected markers is
a hang (confirmed by one re-run).
(B) Boundedness: closed cycles are repeated N times; after N/2 and after N cycles (two
forced collections each) the script samples open descriptors, OS threads, zombie
children (from /proc) and the interpreter counters of hook H4 (heap blocks, roots,
pending-work count, timers, threaded abstracts). metric(N) - metric(N/2) must stay
within a small slack: growth proportional to the number of cycles is a leak."""
import os
import random
import re

from vf import build, core

LEVEL = "exploration"

LIFE_PRELUDE = r'''
(defn mark [m] (print "MARK " m) (flush))
'''


def gen_life(rng, exe):
    """Returns (script, expected marker set, forbidden marker set)."""
    lines = [LIFE_PRELUDE]
    expect, forbid = set(), set()
    n = rng.choice([2, 3, 4, 5, 6, 8])
    kinds_used = set()
    for i in range(n):
        m = "t%d" % i
        k = rng.choice(["sleep", "sleep", "thread", "thread-nowait", "proc-wait", "execute", "pipe", "supervisor", "cancelled-sleep", "cancelled-read", "deadline-expired",
                        "deadline-ok", "gather-fail", "chain", "channel-pair", "thread-chan", "thread-burst"])
        kinds_used.add(k)
        d = rng.choice([0, 0.001, 0.005, 0.02])
        if k == "sleep":
            lines.append("(ev/spawn (ev/sleep %s) (mark \"%s\"))" % (d, m))
            expect.add(m)
        elif k == "thread":
            lines.append("(ev/spawn (def r (ev/thread (fn [&] (os/sleep %s) 7))) (mark \"%s\"))" % (d, m))
            expect.add(m)
        elif k == "thread-burst":
            # many cross-thread completions arrive while this thread is not polling (blocked in os/sleep): all of them must still be delivered
            nb = rng.choice([20, 33, 48])
            lines.append("(for k 0 %d (ev/spawn (ev/thread (fn [&] (os/sleep 0.01) 7)) (mark (string \"%s-\" k))))" % (nb, m))
            lines.append("(ev/spawn (ev/sleep 0.002) (os/sleep 0.12) (mark \"%s-blocker\"))" % m)
            for kk in range(nb):
                expect.add("%s-%d" % (m, kk))
            expect.add(m + "-blocker")
        elif k == "thread-nowait":
            lines.append("(def tc%d (ev/thread-chan 1)) (ev/thread (fn [&] (os/sleep %s) (ev/give tc%d :done)) nil :n) (ev/spawn (ev/take tc%d) (mark \"%s\"))" % (i, d, i, i, m))
            expect.add(m)
        elif k == "proc-wait":
            lines.append('(ev/spawn (def p (os/spawn ["%s" "-e" "(os/sleep %s)"] :p)) (os/proc-wait p) (mark "%s"))' % (exe, d, m))
            expect.add(m)
        elif k == "execute":
            lines.append('(ev/spawn (os/execute ["/bin/true"] :p) (mark "%s"))' % m)
            expect.add(m)
        elif k == "pipe":
            lines.append("(def [r%d w%d] (os/pipe)) (ev/spawn (ev/sleep %s) (ev/write w%d \"data\") (ev/close w%d) (mark \"%sw\")) (ev/spawn (while (ev/read r%d 10) nil) (ev/close r%d) (mark \"%s\"))" % (i, i, d, i, i, m, i, i, m))
            expect.add(m)
            expect.add(m + "w")
        elif k == "supervisor":
            lines.append("(def sup%d (ev/chan 4)) (ev/go (fiber/new (fn [] (ev/sleep %s) :result) :tp) nil sup%d) (ev/spawn (def [sig f] (ev/take sup%d)) (mark (string \"%s-\" sig)))" % (i, d, i, i, m))
            expect.add(m + "-ok")
        elif k == "cancelled-sleep":
            lines.append("(def f%d (ev/spawn (try (do (ev/sleep 5) (mark \"%s-late\")) ([e] (mark \"%s\"))))) (ev/spawn (ev/sleep %s) (ev/cancel f%d :stop))" % (i, m, m, d, i))
            expect.add(m)
            forbid.add(m + "-late")
        elif k == "cancelled-read":
            lines.append("(def [cr%d cw%d] (os/pipe)) (def f%d (ev/spawn (try (do (ev/read cr%d 10) (mark \"%s-late\")) ([e] (ev/close cr%d) (ev/close cw%d) (mark \"%s\"))))) (ev/spawn (ev/sleep %s) (ev/cancel f%d :stop))" % (i, i, i, i, m, i, i, m, d, i))
            expect.add(m)
            forbid.add(m + "-late")
        elif k == "deadline-expired":
            lines.append("(ev/spawn (try (ev/with-deadline 0.01 (ev/sleep 5) (mark \"%s-late\")) ([e] (mark \"%s\"))))" % (m, m))
            expect.add(m)
            forbid.add(m + "-late")
        elif k == "deadline-ok":
            lines.append("(ev/spawn (ev/with-deadline 5 (ev/sleep %s)) (mark \"%s\"))" % (d, m))
            expect.add(m)
        elif k == "gather-fail":
            lines.append("(ev/spawn (try (ev/gather (do (ev/sleep 5) (mark \"%s-late\")) (do (ev/sleep %s) (error :sibling))) ([e] (mark \"%s\"))))" % (m, d, m))
            expect.add(m)
            forbid.add(m + "-late")
        elif k == "chain":
            lines.append("(ev/spawn (ev/sleep %s) (ev/spawn (ev/sleep %s) (ev/spawn (mark \"%s\"))))" % (d, d, m))
            expect.add(m)
        elif k == "channel-pair":
            lines.append("(def ch%d (ev/chan)) (ev/spawn (ev/sleep %s) (ev/give ch%d 1) (mark \"%sg\")) (ev/spawn (ev/take ch%d) (mark \"%s\"))" % (i, d, i, m, i, m))
            expect.add(m)
            expect.add(m + "g")
        elif k == "thread-chan":
            lines.append("(def tch%d (ev/thread-chan 2)) (ev/spawn (ev/do-thread (ev/give tch%d [1 2 3])) (mark \"%sd\")) (ev/spawn (ev/take tch%d) (mark \"%s\"))" % (i, i, m, i, m))
            expect.add(m)
            expect.add(m + "d")
    return "\n".join(lines) + "\n", expect, forbid, kinds_used


CLOSES_EVERYTHING = {"connect-refused", "connect-refused-unix", "listen-bind-fails", "listen-port-in-use", "pipe-transfer", "spawn-wait", "spawn-pipes-wait", "spawn-failed"}

CYCLE_PRELUDE = r'''
(def N (scan-number (get (dyn :args) 1)))
(def EXE (get (dyn :args) 2))
(defn zombies []
  (var z 0) (var known false)
  (each tid (os/dir "/proc/self/task")
    (def p (string "/proc/self/task/" tid "/children"))
    (when (os/stat p)
      (set known true)
      (each pid (string/split " " (string/trim (slurp p)))
        (when (> (length pid) 0)
          (def st (try (slurp (string "/proc/" pid "/stat")) ([e] "")))
          (when (string/find ") Z" st) (++ z))))))
  (if known z -1))
(defn children []
  (var c 0)
  (each tid (os/dir "/proc/self/task")
    (def p (string "/proc/self/task/" tid "/children"))
    (when (os/stat p) (+= c (length (filter |(> (length $) 0) (string/split " " (string/trim (slurp p))))))))
  c)
(defn metrics [tag]
  (ev/sleep 0.1)     # lets finished threads, expired timers and reaped children settle
  (def fds-before-gc (length (os/dir "/proc/self/fd")))
  (gccollect) (gccollect)
  (def s (verif/stats))
  (print "M " tag " fds=" (length (os/dir "/proc/self/fd")) " threads=" (length (os/dir "/proc/self/task")) " zombies=" (zombies) " children=" (children)
         " blocks=" (s :block-count) " roots=" (s :root-count) " listeners=" (s :listener-count) " timers=" (s :timer-count)
         " tabstracts=" (s :threaded-abstracts) " livethreaded=" (s :live-threaded) " tasks=" (s :active-tasks) " fdspregc=" fds-before-gc)
  (flush))
(defn bench [cycle]
  (repeat 10 (cycle))
  (metrics "warm")
  (repeat (div N 2) (cycle))
  (metrics "half")
  (repeat (div N 2) (cycle))
  (metrics "full")
  (print "CYCLES-DONE")
  (flush)
  (os/exit 0))
'''

CYCLES = {
    "pipe-open-close": "(bench (fn [] (def [r w] (os/pipe)) (ev/close r) (ev/close w)))",
    "pipe-dropped": "(bench (fn [] (os/pipe) (gccollect)))",
    "pipe-transfer": "(bench (fn [] (def [r w] (os/pipe)) (ev/spawn (ev/write w \"hello\") (ev/close w)) (while (ev/read r 10) nil) (ev/close r)))",
    "tcp-connect-accept-close": "(def srv (net/listen \"127.0.0.1\" \"0\")) (def [_ port] (net/localname srv)) (bench (fn [] (def c (net/connect \"127.0.0.1\" (string port))) (def s (net/accept srv)) (ev/write c \"x\") (ev/read s 1) (ev/close c) (ev/close s)))",
    "unix-connect-accept-close": "(def path (string (os/cwd) \"/sock\")) (def srv (net/listen :unix path)) (bench (fn [] (def c (net/connect :unix path)) (def s (net/accept srv)) (ev/close c) (ev/close s)))",
    "net-server-clients": "(def srv (net/server \"127.0.0.1\" \"0\" (fn [s] (ev/write s (or (ev/read s 10) \"\")) (ev/close s)))) (def [_ port] (net/localname srv)) (bench (fn [] (def c (net/connect \"127.0.0.1\" (string port))) (ev/write c \"ping\") (ev/read c 10) (ev/close c)))",
    "spawn-wait": "(bench (fn [] (os/execute [\"/bin/true\"] :p)))",
    "spawn-pipes-wait": "(bench (fn [] (def p (os/spawn [\"/bin/echo\" \"hi\"] :p {:out :pipe})) (ev/read (p :out) :all) (os/proc-wait p) (os/proc-close p)))",
    "spawn-err-pipe": "(bench (fn [] (def p (os/spawn [\"/bin/sh\" \"-c\" \"echo e 1>&2\"] :p {:err :pipe})) (ev/with-deadline 5 (ev/read (p :err) :all)) (os/proc-wait p) (os/proc-close p)))",
    "spawn-kill": "(bench (fn [] (def p (os/spawn [\"/bin/sleep\" \"30\"] :p)) (os/proc-kill p true)))",
    "spawn-dropped": "(bench (fn [] (os/spawn [\"/bin/true\"] :p) (ev/sleep 0.002) (gccollect)))",
    "spawn-dropped-alive": "(bench (fn [] (os/spawn [\"/bin/sleep\" \"60\"] :p) (gccollect) (gccollect)))",
    "spawn-cancelled-wait": "(bench (fn [] (def p (os/spawn [\"/bin/sleep\" \"0.03\"] :p {:out :pipe})) (try (ev/with-deadline 0.005 (os/proc-wait p)) ([e] nil)) (ev/sleep 0.04)))",
    "connect-refused": "(bench (fn [] (try (net/connect \"127.0.0.1\" \"1\") ([e] nil))))",
    "connect-refused-unix": "(bench (fn [] (try (net/connect :unix \"/nonexistent-dir-xyz/sock\") ([e] nil))))",
    "listen-bind-fails": "(bench (fn [] (try (net/listen \"192.0.2.1\" \"8081\") ([e] nil)) (try (net/listen :unix \"/nonexistent-dir-xyz/s\") ([e] nil))))",
    "listen-port-in-use": "(def L (net/listen \"127.0.0.1\" \"0\" :stream true)) (def [_ P] (net/localname L)) (bench (fn [] (try (net/listen \"127.0.0.1\" (string P) :stream true) ([e] nil))))",
    "spawn-failed": "(bench (fn [] (try (os/spawn [\"/nonexistent-program-xyz\"] :p {:out :pipe :err :pipe :in :pipe}) ([e] nil))))",
    "channel-traffic": "(def ch (ev/chan 2)) (bench (fn [] (ev/spawn (ev/give ch @[1 2 3])) (ev/take ch)))",
    "thread-channel-traffic": "(def a (ev/thread-chan 4)) (def b (ev/thread-chan 4)) (ev/thread (fn [&] (forever (def m (ev/take a)) (when (= m :stop) (break)) (ev/give b m))) nil :n) (bench (fn [] (ev/give a @{:k [1 2 3]}) (ev/take b)))",
    "threads-start-finish": "(bench (fn [] (ev/thread (fn [&] 1))))",
    "threads-nowait": "(def done (ev/thread-chan 8)) (bench (fn [] (ev/thread (fn [&] (ev/give done 1)) nil :n) (ev/take done)))",
    "cancelled-reads": "(def [r w] (os/pipe)) (bench (fn [] (def f (ev/spawn (try (ev/read r 10) ([e] nil)))) (ev/sleep 0) (ev/cancel f :x) (ev/sleep 0)))",
    "cancelled-sleeps": "(bench (fn [] (def f (ev/spawn (try (ev/sleep 0.02) ([e] nil)))) (ev/sleep 0) (ev/cancel f :x) (ev/sleep 0)))",
    "deadlines": "(bench (fn [] (try (ev/with-deadline 0.001 (ev/sleep 0.02)) ([e] nil)) (ev/with-deadline 0.02 (ev/sleep 0))))",
    "cancelled-thread-wait": "(bench (fn [] (def f (ev/spawn (try (ev/thread (fn [&] (os/sleep 0.005))) ([e] nil)))) (ev/sleep 0.001) (ev/cancel f :x) (ev/sleep 0.01)))",
    "threaded-abstract-roundtrip": "(def to (ev/thread-chan 4)) (def back (ev/thread-chan 4)) (ev/thread (fn [&] (forever (def m (ev/take to)) (when (= m :stop) (break)) (ev/give back m) (gccollect))) nil :n) (bench (fn [] (def fresh (ev/thread-chan 1)) (ev/give fresh (string/repeat \"x\" 1000)) (ev/give to fresh) (def same (ev/take back)) (ev/take same)))",
    # waits on a thread channel root the waiting fiber; every way the wait can end must drop that root
    "thread-chan-cancelled-take-close": "(bench (fn [] (def ch (ev/thread-chan 1)) (def f (ev/spawn (try (ev/take ch) ([e] nil)))) (ev/sleep 0) (ev/cancel f :x) (ev/sleep 0) (ev/chan-close ch)))",
    "thread-chan-deadline-take-close": "(bench (fn [] (def ch (ev/thread-chan 1)) (def [r w] (os/pipe)) (def f (ev/spawn (def keep [r w]) (try (ev/with-deadline 0.001 (ev/take ch)) ([e] nil)))) (ev/sleep 0.003) (ev/chan-close ch)))",
    "thread-chan-cancelled-give-close": "(bench (fn [] (def ch (ev/thread-chan 1)) (def f (ev/spawn (try (do (ev/give ch 1) (ev/give ch 2)) ([e] nil)))) (ev/sleep 0) (ev/cancel f :x) (ev/sleep 0) (ev/chan-close ch)))",
    "thread-chan-cancelled-take-then-served": "(bench (fn [] (def ch (ev/thread-chan 1)) (def f (ev/spawn (try (ev/take ch) ([e] nil)))) (ev/sleep 0) (ev/cancel f :x) (ev/sleep 0) (ev/give ch 1) (ev/take ch)))",
    "select-timeouts": "(def c1 (ev/chan)) (def c2 (ev/chan)) (bench (fn [] (ev/spawn (ev/give c2 1)) (ev/select c1 c2)))",
    "gather": "(bench (fn [] (ev/gather (ev/sleep 0) (+ 1 2) (ev/sleep 0.001))))",
    "marshal-roundtrip": "(bench (fn [] (unmarshal (marshal [@{:a (fn [] 1)} (ev/chan 1)] make-image-dict) load-image-dict)))",
    "filewatch": "(bench (fn [] (def ch (ev/chan 8)) (def w (filewatch/new ch)) (filewatch/add w (os/cwd) :all) (filewatch/listen w) (filewatch/unlisten w)))",
}

SLACK = dict(fds=2, threads=2, zombies=1, children=2, blocks=150, roots=2, listeners=1, timers=2, tabstracts=3, livethreaded=3, tasks=2)


def parse_metrics(out):
    res = {}
    for line in out.splitlines():
        if line.startswith("M "):
            parts = line.split()
            res[parts[1]] = {kv.split("=")[0]: int(kv.split("=")[1]) for kv in parts[2:]}
    return res


def run(ctx):
    exe = build.janet("plain")
    tsan = build.janet("tsan") if ctx.tier != "quick" else None
    quick = ctx.tier == "quick"
    nlife = 800 if quick else 10000
    ctx.rule = ("(A) life programs of 2-8 concurrent tasks drawn from 16 kinds of pending work (sleep, awaited/detached threads, subprocess wait, os/execute, pipe "
                "transfer, supervisor channel, cancelled sleep/read, expired/unexpired deadlines, ev/gather with failing sibling, spawn chains, channel pairs, thread "
                "channels) with a known marker set; (B) %d closed cycles repeated N in {60, 400} (quick) / up to 4000 (thorough) with /proc and hook-H4 metrics; "
                "non-trivial = life program with >= 3 kinds of pending work, or a cycle whose metrics were sampled after >= N repetitions") % len(CYCLES)
    ctx.assumptions = ["growth between N/2 and N cycles is judged against a small per-metric slack; absolute values are reported, not judged", "RSS is not judged"]

    def life(i):
        rng = random.Random(ctx.sub_seed("life", i))
        if hangs[0] >= 6:
            return      # enough confirmed hangs to report; every further one costs two watchdog periods
        script, expect, forbid, kinds = gen_life(rng, exe)
        d = core.case_dir()
        path = os.path.join(d, "life.janet")
        open(path, "w").write(script)
        res = core.run([exe, path], timeout=40, cpu=30, cwd=d)
        core.discard(res)
        ctx.evals()
        files = {"life.janet": script, "stdout.txt": res.out[-2000:], "stderr.txt": res.err[-2000:]}
        marks = set(l[5:].strip() for l in res.out.decode(errors="replace").splitlines() if l.startswith("MARK "))
        if res.timed_out:
            res2 = core.run([exe, path], timeout=40, cpu=30, cwd=d)
            core.discard(res2)
            marks2 = set(l[5:].strip() for l in res2.out.decode(errors="replace").splitlines() if l.startswith("MARK "))
            if res2.timed_out:
                hangs[0] += 1
                if expect <= marks2:
                    ctx.violation("hang-after-work-done:" + "+".join(sorted(kinds))[:80], "all %d expected markers printed but the process did not exit (twice)" % len(expect), files)
                else:
                    ctx.violation("hang:task-never-finished:" + "+".join(sorted(expect - marks2))[:40], "markers %s never appeared and the process did not exit; kinds %s" % (sorted(expect - marks2), sorted(kinds)), files)
            else:
                with ctx.lock:
                    ctx.inconclusive.append("life:watchdog-once")
            return
        if not ctx.check_result(res, files, where="life"):
            return
        if res.rc != 0 or res.err.strip():
            ctx.violation("life-error:" + "+".join(sorted(kinds))[:60], "exit status %s, stderr %r" % (res.rc, res.err[-300:]), files)
            return
        if not expect <= marks:
            ctx.violation("premature-exit:" + "+".join(sorted(kinds))[:80], "process exited 0 but tasks %s never completed" % sorted(expect - marks), files)
        elif marks & forbid:
            ctx.violation("cancelled-task-completed", "markers of cancelled work appeared: %s" % sorted(marks & forbid), files)
        elif marks - expect:
            ctx.violation("unexpected-marker", "%s" % sorted(marks - expect), files)
        if len(kinds) >= 3:
            ctx.nontriv(("life", i))
        ctx.count("life_programs")
        ctx.sample({"kinds": sorted(kinds), "markers": len(expect)}, cap=3)

    hangs = [0]
    core.pmap(life, range(nlife), jobs=8)

    # ---- boundedness
    ns = [60, 400, 1200] if quick else [60, 400, 4000]
    jobs = [(name, n) for name in CYCLES for n in ns]
    if not quick:
        jobs = [(name, n) for (name, n) in jobs if not (n == 4000 and name.startswith(("spawn", "threads", "cancelled-thread", "filewatch")))] + \
               [(name, 1000) for name in CYCLES if name.startswith(("spawn", "threads", "cancelled-thread"))]

    def cyc(j):
        name, n = jobs[j]
        script = CYCLE_PRELUDE + CYCLES[name] + "\n"
        d = core.case_dir()
        path = os.path.join(d, "cycle.janet")
        open(path, "w").write(script)
        binary = tsan if (tsan and name.startswith(("thread", "threads")) and n <= 400) else exe
        res = core.run([binary, path, str(n), exe], timeout=900, cpu=600, cwd=d)
        core.discard(res)
        ctx.evals()
        files = {"cycle.janet": script, "n.txt": str(n), "stdout.txt": res.out[-3000:], "stderr.txt": res.err[-3000:]}
        if not ctx.check_result(res, files, where="cycle:" + name):
            return
        out = res.out.decode(errors="replace")
        m = parse_metrics(out)
        if "CYCLES-DONE" not in out or "full" not in m or "half" not in m:
            ctx.violation("cycle-failed:" + name, "cycle script did not complete (rc=%s): %s" % (res.rc, res.err.decode(errors="replace")[-300:]), files)
            return
        ctx.nontriv(("cycle", name, n))
        ctx.count("cycles_run", n)
        for k, slack in SLACK.items():
            a, b = m["half"].get(k), m["full"].get(k)
            if a is None or b is None or a < 0 or b < 0:
                continue
            if b - a > slack + (n // 2) * 0.02:
                ctx.violation("unbounded:%s:%s" % (name, k), "%s over %d cycles: %s grew from %d (after N/2) to %d (after N); warm=%s" % (name, n, k, a, b, m.get("warm", {}).get(k)), files)
        if name in CLOSES_EVERYTHING:
            # these cycles close (or never obtain) every descriptor themselves: the count must be bounded even BEFORE a collection
            # has had the chance to finalise forgotten streams
            a, b = m.get("warm", {}).get("fds"), m["full"].get("fdspregc")
            if a is not None and b is not None and b - a > 16:
                ctx.violation("unbounded:%s:fds-before-collection" % name, "%s over %d cycles: %d descriptors open before collecting (%d after warm-up): they are only released by the collector" % (name, n, b, a), files)
        ctx.sample({"cycle": name, "n": n, "half": m["half"], "full": m["full"]}, cap=5)

    core.pmap(cyc, range(len(jobs)), jobs=8)
