"""C12 — PEG matching conforms to the PEG semantics.

Monitor: every (grammar, text, start, args) case is executed by the real
peg/match (ASan+UBSan build) and by the reference interpreter vf/model_peg.py;
results (position/nil, captures in canonical text, raised error) must agree.
peg/find, find-all, replace, replace-all are checked against their definition
by repeated matching; compiled and marshal-round-tripped grammars must agree
with the source grammar."""
import hashlib
import os
import random

from vf import build, core, model_peg as mp
from vf.canon import canon, jbytes, emit

LEVEL = "exploration"

PRELUDE = open(os.path.join(core.VERIF, "janet", "canon.janet")).read() + mp.FUNC_DEFS + r'''
(defn show [id f]
  (def r (protect (f)))
  (if (r 0)
    (print id " ok " (canon (r 1)))
    (print id " err " (canon (r 1)))))
'''


def node_count(n):
    if isinstance(n, tuple):
        return 1 + sum(node_count(x) for x in n)
    if isinstance(n, list):
        return sum(node_count(x) for x in n)
    return 0


def expected_match(res):
    if res[0] == "ok":
        return "ok " + canon(res[1])
    if res[0] == "fail":
        return "ok nil"
    if res[0] == "err":
        if res[1] == "val":
            return "err " + canon(res[2])
        return "err " + canon(("match error at line %d, column %d" % (res[2], res[3])).encode())
    return None


def make_case(seed, idx, quick):
    rng = random.Random(seed)
    g = mp.Gen(rng)
    depth = rng.choice([1, 2, 2, 3, 3, 4, 5])
    rules = g.grammar(depth)
    if sum(node_count(v) for v in rules.values()) > 400:
        return None
    gsrc = mp.emit_grammar(rules)
    ntexts = 6 if quick else 10
    items = []
    args_pool = [(), (), (b"A",), (b"A", 5), (3, b"B", Kw("z"))]
    for t in range(ntexts):
        text = g.text()
        start = rng.choice([0, 0, 0, 0, 1, 2, len(text), -1, -2, rng.randrange(0, len(text) + 1)])
        if start > len(text) or -start > len(text) + 1:
            start = 0
        args = rng.choice(args_pool)
        items.append((text, start, args))
    return rules, gsrc, items, g.features


from vf.canon import Kw  # noqa: E402


def norm_start(start, n):
    return start if start >= 0 else start + n + 1


def subst_result(kind, matched, caps):
    if kind == "str":
        return b"<S>"
    return mp.FUNCS["f-join"]([matched] + list(caps))


def build_batch(ctx, seeds, quick):
    """Returns (script text, expectations dict id -> (expected line, meta))."""
    lines = [PRELUDE]
    exp = {}
    n = 0
    for ci, seed in enumerate(seeds):
        mc = make_case(seed, ci, quick)
        if mc is None:
            continue
        rules, gsrc, items, features = mc
        gid = "g%d" % ci
        lines.append("(def %s-src %s)" % (gid, gsrc))
        lines.append("(def %s-cmp (protect (peg/compile %s-src)))" % (gid, gid))
        lines.append('(if (%s-cmp 0) (print "%s compiled") (print "%s compile-error " (canon (string (%s-cmp 1)))))' % (gid, gid, gid, gid))
        lines.append("(def %s-peg (if (%s-cmp 0) (%s-cmp 1)))" % (gid, gid, gid))
        lines.append("(def %s-rt (if %s-peg (let [r (protect (unmarshal (marshal %s-peg)))] (if (r 0) (r 1)))))" % (gid, gid, gid))
        exp[gid] = ("compiled", dict(grammar=gsrc))
        for ti, (text, start, args) in enumerate(items):
            ns = norm_start(start, len(text))
            res = mp.match(rules, text, ns, args)
            e = expected_match(res)
            if e is None:
                ctx.count("model_skipped_" + res[0])
                continue
            argsrc = " ".join(emit(a) for a in args)
            tsrc = jbytes(text)
            base = "%s_%d" % (gid, ti)
            meta = dict(grammar=gsrc, text=tsrc, start=start, args=argsrc, features=sorted(features),
                        nontrivial=("capture-then-fail" in features), model=res[0])
            for variant, obj in (("src", gid + "-src"), ("cmp", gid + "-peg"), ("rt", gid + "-rt")):
                cid = "%s_%s" % (base, variant)
                lines.append("(when %s (show \"%s\" (fn [] (peg/match %s %s %d %s))))" % (obj, cid, obj, tsrc, start, argsrc))
                exp[cid] = (e, dict(meta, variant=variant))
            # derived entry points, defined through repeated matching (only for error-free grammars)
            if "error" not in features and ti < 3:
                okpos = []
                results = {}
                budget_hit = False
                for i in range(ns, len(text)):
                    r_i = mp.match(rules, text, i, args)
                    if r_i[0] in ("budget", "unmodelled", "err"):
                        budget_hit = True
                        break
                    results[i] = r_i
                    if r_i[0] == "ok":
                        okpos.append(i)
                if not budget_hit:
                    cid = base + "_find"
                    lines.append("(show \"%s\" (fn [] (peg/find %s-src %s %d %s)))" % (cid, gid, tsrc, start, argsrc))
                    exp[cid] = ("ok " + canon(okpos[0] if okpos else None), dict(meta, variant="find"))
                    cid = base + "_findall"
                    lines.append("(show \"%s\" (fn [] (peg/find-all %s-src %s %d %s)))" % (cid, gid, tsrc, start, argsrc))
                    exp[cid] = ("ok " + canon(list(okpos)), dict(meta, variant="find-all"))
                    for only_one in (True, False):
                        for kind in ("str", "fn"):
                            out = bytearray()
                            trail = 0
                            i = ns
                            while i < len(text):
                                r_i = results.get(i)
                                if r_i is not None and r_i[0] == "ok":
                                    out += text[trail:i]
                                    out += subst_result(kind, text[i:r_i[2]], r_i[1])
                                    trail = r_i[2]
                                    i = r_i[2] if r_i[2] > i else i + 1
                                    if only_one:
                                        break
                                else:
                                    i += 1
                            out += text[trail:]
                            from vf.canon import Buf
                            cid = "%s_rep%s%s" % (base, "1" if only_one else "A", kind)
                            fn = "peg/replace" if only_one else "peg/replace-all"
                            sub = '"<S>"' if kind == "str" else "f-join"
                            lines.append("(show \"%s\" (fn [] (%s %s-src %s %s %d %s)))" % (cid, fn, gid, sub, tsrc, start, argsrc))
                            exp[cid] = ("ok " + canon(Buf(bytes(out))), dict(meta, variant=fn))
    return "\n".join(lines) + "\n", exp


def classify(meta, want, got):
    feats = [f for f in ("lenprefix", "sub", "til", "split", "unref", "backmatch", "error", "grammar-table") if f in meta.get("features", [])]
    kind = "result"
    if want.startswith("ok nil") != got.startswith("ok nil"):
        kind = "match-vs-fail"
    elif want.startswith("err") != got.startswith("err"):
        kind = "error-vs-value"
    else:
        kind = "captures"
    return "%s:%s:%s" % (meta.get("variant", "?"), kind, "+".join(feats) or "core")


def run(ctx):
    exe = build.janet("asan")
    quick = ctx.tier == "quick"
    ngram = 2500 if quick else 120000
    per = 25
    ctx.rule = ("random grammars over every combinator (depth<=5), biased to put a failing alternative that has already captured inside "
                "choice/repetition/capturing combinators; texts over {a,b,1,\\n,NUL,0xFF,x}, start offsets incl. negative, 0-3 extra args; "
                "each case run as source grammar, compiled peg and marshal-round-tripped peg, plus find/find-all/replace/replace-all; "
                "non-trivial = grammar contains a capture-then-fail shape; distinct by (grammar,text,start) hash")
    ctx.assumptions = ["reference semantics in vf/model_peg.py (written from the combinator documentation; quirks noted in DESIGN.md)",
                       "conditions of `if` and bodies of `look` are generated capture-free (their capture behaviour is not documented consistently)",
                       "inside accumulate only string/integer/keyword captures are generated (to_string of other values embeds addresses)"]
    nb = (ngram + per - 1) // per
    seeds = [[ctx.sub_seed("g", b, i) for i in range(per)] for b in range(nb)]

    def do_batch(bi):
        script, exp = build_batch(ctx, seeds[bi], quick)
        d = core.case_dir()
        path = os.path.join(d, "batch.janet")
        with open(path, "w") as fh:
            fh.write(script)
        r = core.run([exe, path], timeout=600, cpu=500)
        files = {"batch.janet": script}
        usable = ctx.check_result(r, files, where="peg-batch")
        got = {}
        for line in r.out.decode(errors="replace").splitlines():
            parts = line.split(" ", 1)
            if len(parts) == 2:
                got[parts[0]] = parts[1]
        core.discard(r)
        if not usable and not got:
            return
        for cid, (want, meta) in exp.items():
            if cid not in got:
                if usable and want != "compiled" and (cid.split("_")[0]) in got and got[cid.split("_")[0]].startswith("compiled"):
                    if cid.endswith(("_cmp", "_rt")):
                        # rt may legitimately be absent if marshal raised; cmp is present iff compile ok
                        if cid.endswith("_rt"):
                            ctx.count("roundtrip_unavailable")
                            continue
                    ctx.violation("missing-output:" + meta.get("variant", "?"), "no output for %s; grammar %s" % (cid, meta.get("grammar")), files)
                continue
            g = got[cid]
            if want == "compiled":
                if not g.startswith("compiled"):
                    ctx.violation("compile-rejected", "generated grammar rejected: %s -> %s" % (meta["grammar"], g), files)
                continue
            ctx.evals()
            key = hashlib.sha256((meta["grammar"] + meta["text"] + str(meta["start"])).encode()).hexdigest()[:16]
            if meta.get("nontrivial"):
                ctx.nontriv(key)
            for f in meta["features"]:
                ctx.count("feat:" + f)
            if g == want:
                if meta.get("nontrivial"):
                    ctx.sample(dict(grammar=meta["grammar"], text=meta["text"], start=meta["start"], variant=meta["variant"], result=g[:200]), cap=5)
                continue
            single = ("%s\n(def g %s)\n(show \"case\" (fn [] (%s g %s %d %s)))\n" %
                      (PRELUDE, meta["grammar"], "peg/match" if meta["variant"] in ("src", "cmp", "rt") else meta["variant"], meta["text"], meta["start"], meta["args"]))
            ctx.violation(classify(meta, want, g),
                          "grammar %s text %s start %d args [%s] (%s): janet gave %r, reference says %r" %
                          (meta["grammar"], meta["text"], meta["start"], meta["args"], meta["variant"], g[:300], want[:300]),
                          {"case.janet": single, "expected.txt": want, "observed.txt": g})

    core.pmap(do_batch, range(nb))
