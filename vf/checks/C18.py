"""C18 — sandboxed capabilities stay disabled for every function and thread.

A driver script disables a subset of capabilities with `sandbox` and then calls every
function bound in the core environment (enumerated at run time) with a battery of
argument shapes aimed at marker files, sockets, commands, environment variables and
loadable objects inside a scratch directory - in the calling thread, in a thread
started after sandboxing, and in a thread that sandboxes itself. An LD_PRELOAD
interposer (native/sandbox_shim.c) logs every libc call janet makes together with the
sandbox flags of the calling thread (hook H3); a logged call whose kind is disabled in
that thread is a violation. High-resolution time is checked behaviourally (functions
whose value tracks the clock must raise under :hrtime)."""
import os
import random
import re
import shutil

from vf import build, core

LEVEL = "exploration"

FLAGS = {"subprocess": 2, "net-connect": 4, "net-listen": 8, "ffi-define": 16, "fs-write": 32, "fs-read": 64, "hrtime": 128, "env": 256,
         "modules": 512, "fs-temp": 1024, "ffi-use": 2048, "ffi-jit": 4096, "signal": 8192, "sandbox": 1}
KIND_BITS = {"FS_READWRITE": 64 | 32, "FS_READ": 64, "FS_WRITE": 32, "FS_TEMP": 1024, "NET_CONNECT": 4, "NET_LISTEN": 8, "SUBPROCESS": 2, "ENV": 256,
             "DLOPEN": 512 | 16, "NET_ANY": 0, "SIGNAL": 8192, "FFI_JIT": 4096}
# dlopen is used by `native` (dynamic modules) and by ffi/native (ffi-define): it is a violation only when both are disabled,
# or when the calling function's own capability is disabled (decided per function name below)

DENY = ["os/exit", "os/posix-fork", "os/posix-chroot", "quit", "sandbox", "repl", "debugger", "debugger-on-status", "getline", "cli-main", "run-context",
        "stdin", "os/sleep", "ev/sleep", "ev/deadline", "ev/cancel", "ev/thread", "os/proc-wait", "os/proc-kill", "os/proc-close", "gcsetinterval",
        # raw-pointer FFI calls: arbitrary memory access, not observable through libc
        "ffi/call", "ffi/trampoline", "ffi/read", "ffi/write", "ffi/free", "ffi/malloc", "ffi/pointer-buffer", "ffi/pointer-cfunction", "ffi/calling-conventions",
        # block forever without a peer, or act only on handles that are already open
        "ev/take", "ev/give", "ev/select", "ev/rselect", "ev/acquire-lock", "ev/acquire-rlock", "ev/acquire-wlock", "ev/read", "ev/chunk", "ev/write", "ev/close",
        "ev/give-supervisor", "net/accept", "net/accept-loop", "net/read", "net/chunk", "net/write", "net/recv-from", "net/send-to", "net/flush", "net/close", "net/shutdown",
        "file/read", "file/write", "file/close", "file/flush", "file/seek", "file/tell", "file/lines",
        # control flow out of the sweep, or output that would tear log lines
        "resume", "cancel", "propagate", "yield", "signal", "error", "errorf", "assert", "assertf", "ev/go", "ev/call", "prin", "prinf", "eprin", "eprinf", "xprin", "xprinf", "print", "printf", "eprint", "eprintf",
        "xprint", "xprintf", "pp", "doc*", "flush", "eflush", "debug/break", "debug/step", "verif/stats", "verif/table-check",
        "bundle/install", "bundle/reinstall", "bundle/update-all", "bundle/prune", "bundle/uninstall", "bundle/replace", "bundle/update"]

LINE = re.compile(r"^(SHIM|CALL|RET)\|(.*)$")

DRIVER = r'''
(def scratch (os/cwd))
(def [mode flagstr] (slice (dyn :args) 1 3))
(def flags (map keyword (filter |(> (length $) 0) (string/split "," flagstr))))
(def deny (tabseq [n :in (string/split " " (get (dyn :args) 3))] (symbol n) true))
(def port (get (dyn :args) 4))
(def m1 (string scratch "/marker.txt")) (def m2 (string scratch "/marker2.txt")) (def md (string scratch "/mdir")) (def missing (string scratch "/missing.txt"))
(def cmd (string scratch "/bin-true")) (def so (string scratch "/lib-copy.so")) (def sock (string scratch "/u.sock"))
(defn mk-markers []
  (protect (spit m1 "marker"))
  (protect (spit m2 "marker2"))
  (protect (os/mkdir md))
  (protect (os/cd scratch))
  (protect (do (spit cmd (slurp (string cmd ".orig"))) (os/chmod cmd 8r755)))
  (protect (spit so "not an ELF object\n"))
  (protect (os/rm sock))
  nil)
(defn make-shapes []
  [[] [m1] [m1 :w] [m1 :r] [m1 :a] [m1 :rw] [m1 :wc] [m1 :rc] [m1 :rt] [m1 "x"] [m1 @"buf"] [md] [missing] [missing :w] [m1 m2] [m1 8r644] [md :all]
   ["127.0.0.1" port] ["127.0.0.1" port :stream] [:unix sock] [:unix sock :datagram]
   [cmd] [[cmd]] [[cmd] :p] [[cmd] :px {:out :pipe}] [(string cmd " arg")]
   ["VERIF_ENV_VAR"] ["VERIF_ENV_VAR" "val"] [so] [so :lazy] [:int] [:alrm (fn [&] nil)] [:term (fn [&] nil) true] [1] [0.001] [@"\xc3"] [(fn [&] nil)] [:monotonic] [:realtime] [:cputime]
   [m1 :rwct] [m1 :e] [m1 :x] [m1 :r+] [m1 :wn] [m1 :an]])
# functions that replace the process: only called when the capability they need is disabled in this run (they must raise)
(def only-when-disabled {'os/posix-exec :subprocess})
(def disabled-now (tabseq [f :in flags] f true))
(defn callable? [name]
  (def need (get only-when-disabled name))
  (if need (or (disabled-now need) (disabled-now :all)) (not (get deny name))))
(defn run-all [tag]
  # library code that installs files works below (dyn :syspath): keep it inside the scratch directory in every thread
  (setdyn :syspath (string scratch "/syspath"))
  (def shapes (make-shapes))
  (def root-names (sort (filter symbol? (all-bindings root-env true))))
  (each name root-names
    (def v (get-in root-env [name :value] (get-in root-env [name :ref 0])))
    (when (and (or (function? v) (cfunction? v)) (callable? name))
      (var si -1)
      (each sh shapes
        (++ si)
        (eprint "\nCALL|" tag "|" name "|" si)
        (def fb (fiber/new (fn [] (v ;sh)) :tdy))
        (resume fb)
        (eprint "\nRET|" tag "|" name "|" si "|" (if (= (fiber/status fb) :dead) "ok" "err")))
      (mk-markers)))
  (eprint "\nSWEEP-DONE|" tag))
(defn sb [] (when (> (length flags) 0) (sandbox ;flags)))
(case mode
  "same" (do (sb) (run-all "same"))
  "thread-after" (do (sb) (ev/thread (fn [&] (run-all "thread-after"))))
  "thread-detached" (do (sb) (def done (ev/thread-chan 1)) (ev/thread (fn [&] (run-all "thread-detached") (ev/give done 1)) nil :n) (ev/take done))
  "thread-self" (ev/thread (fn [&] (sb) (run-all "thread-self")))
  "thread-nested" (do (sb) (ev/thread (fn [&] (ev/thread (fn [&] (run-all "thread-nested"))))))
  "resandbox" (do (sb) (protect (sandbox)) (protect (sandbox :sandbox)) (protect (sandbox)) (run-all "resandbox")))
(eprint "\nDRIVER-DONE")
(os/exit 0)
'''

CLOCK_PROBE = r'''
# calibration: which core functions return a value that tracks a clock at sub-second resolution; then the same calls under :hrtime
(def deny (tabseq [n :in (string/split " " (get (dyn :args) 1))] (symbol n) true))
(def shapes [[] [:monotonic] [:realtime] [:cputime] [:monotonic :double] [:realtime :double] [:cputime :double] [:monotonic :int] [:realtime :int] [:monotonic :tuple] [:realtime :tuple] [:cputime :tuple] [nil :tuple] [nil :double]])
(defn num [v] (cond (number? v) v (and (indexed? v) (= 2 (length v)) (number? (v 0)) (number? (v 1))) (+ (v 0) (/ (v 1) 1e9)) nil))
(def tracking @[])
(defn try [v sh] (def fb (fiber/new (fn [] (v ;sh)) :tdy)) (def r (resume fb)) [(= (fiber/status fb) :dead) r])
(defn burn [] (var x 0) (for i 0 300000 (+= x i)) x)
(each name (sort (filter symbol? (all-bindings root-env true)))
  (def v (get-in root-env [name :value]))
  (when (and (or (function? v) (cfunction? v)) (not (get deny name)))
    (each sh shapes
      (def a (try v sh))
      (when (and (a 0) (num (a 1)))
        (burn)
        (def b (try v sh))
        (burn)
        (def c (try v sh))
        (when (and (b 0) (c 0) (num (b 1)) (num (c 1)))
          (def d1 (- (num (b 1)) (num (a 1)))) (def d2 (- (num (c 1)) (num (b 1))))
          (when (and (> d1 0) (< d1 1) (> d2 0) (< d2 1) (not= d1 (math/floor d1))) (array/push tracking [name v sh])))))))
(print "TRACKING " (length tracking))
(each [name v sh] tracking (print "TRACKS " name " " (string/format "%j" sh)))
(sandbox :hrtime)
(each [name v sh] tracking
  (def r (try v sh))
  (print "HR|same|" name "|" (string/format "%j" sh) "|" (if (r 0) "RETURNED" "raised")))
(ev/thread (fn [&] (each [name v sh] tracking (def r (try v sh)) (print "HR|thread|" name "|" (string/format "%j" sh) "|" (if (r 0) "RETURNED" "raised")))))
(os/exit 0)
'''


def setup_scratch(d):
    shutil.copy("/bin/true", os.path.join(d, "bin-true"))
    os.chmod(os.path.join(d, "bin-true"), 0o755)
    shutil.copy("/bin/true", os.path.join(d, "bin-true.orig"))
    # not a real object: the dlopen call reaching libc is the observable, and a mapped library must not be truncated by later calls of the sweep
    open(os.path.join(d, "lib-copy.so"), "w").write("not an ELF object\n")
    for f, txt in (("marker.txt", "marker"), ("marker2.txt", "marker2")):
        open(os.path.join(d, f), "w").write(txt)
    os.mkdir(os.path.join(d, "mdir"))


def snapshot(d):
    out = {}
    for root, dirs, files in os.walk(d):
        for f in files:
            p = os.path.join(root, f)
            try:
                st = os.lstat(p)
                out[os.path.relpath(p, d)] = (st.st_size, st.st_mtime_ns, st.st_mode, open(p, "rb").read(64) if st.st_size < 4096 else b"")
            except OSError:
                pass
        for dd in dirs:
            out[os.path.relpath(os.path.join(root, dd), d) + "/"] = True
    return out


def flagword(sub):
    w = 0
    for n in sub:
        if n == "all":
            return 0xFFFFFFFF
        if n == "fs":
            w |= 32 | 64 | 1024
        elif n == "net":
            w |= 4 | 8
        elif n == "ffi":
            w |= 16 | 2048 | 4096
        else:
            w |= FLAGS[n]
    return w


def run(ctx):
    exe = build.janet("plain")
    shim = build.native("sandbox_shim.so", ["sandbox_shim.c"], cc="gcc", flags=["-shared", "-fPIC", "-O1"], libs=["-ldl"])
    quick = ctx.tier == "quick"
    ctx.rule = ("capability subset x thread mode x every function bound in the core environment x 46 argument shapes (marker files with every open-mode "
                "keyword, directories, missing paths, loopback and unix addresses, commands, env variable names, a loadable object, signal handlers, clock "
                "sources, callbacks); libc calls attributed to the calling thread's sandbox flags by an LD_PRELOAD interposer; non-trivial = (function, "
                "shape) pairs that reach an OS call of some kind in the unsandboxed calibration run")
    ctx.assumptions = ["only janet's own libc call sites are judged (calls made inside libc do not pass the PLT); calls outside a CALL..RET window "
                       "(interpreter start-up, thread start-up) are not judged",
                       "functions that block, exit, replace the process or only act on already-open handles are excluded from the sweep (DENY in vf/checks/C18.py)",
                       "raw-pointer FFI effects are invisible to a libc interposer: ffi is judged through dlopen, mmap(PROT_EXEC) and raised errors"]
    names = [n for n in FLAGS if n != "sandbox"]
    subsets = [[]]                       # calibration: no sandbox
    subsets += [[n] for n in names]
    subsets += [["all"], ["fs"], ["net"], ["ffi"], ["fs-write", "fs-temp"], ["fs-read", "env"], ["subprocess", "signal", "modules"]]
    rng = ctx.rng
    for _ in range(5 if quick else 120):
        subsets.append(sorted(rng.sample(names, rng.randrange(2, 7))))
    allmodes = ["same", "thread-after", "thread-detached", "thread-self", "thread-nested", "resandbox"]
    jobs = []
    for sub in subsets:
        if not sub:
            ms = ["same", "thread-after"]
        elif quick:
            ms = ["same", "thread-after", "thread-detached"] if (len(sub) == 1 or sub == ["all"]) else [rng.choice(allmodes), rng.choice(allmodes)]
        else:
            ms = allmodes
        for m in dict.fromkeys(ms):
            jobs.append((sub, m))
    os_touching = set()
    calib = {}
    judged = [0]
    raised_instead = [0]

    def one(j):
        sub, mode = jobs[j]
        d = core.case_dir()
        setup_scratch(d)
        drv = os.path.join(d, "driver.janet")
        open(drv, "w").write(DRIVER)
        env = {"LD_PRELOAD": shim, "HOME": d, "TMPDIR": d, "VERIF_ENV_VAR": "secret-value"}
        port = str(20000 + (ctx.sub_seed("port", j) % 30000))
        res = core.run([exe, drv, mode, ",".join(sub), " ".join(DENY), port], env=env, timeout=400, cwd=d, fsize_mb=64, san=False)
        err = res.err.decode(errors="replace")
        files = {"driver.janet": DRIVER, "args.txt": "%s %s %s %s\n(run in an empty directory holding bin-true, lib-copy.so, marker.txt, marker2.txt, mdir/ with LD_PRELOAD=sandbox_shim.so)" %
                 (mode, ",".join(sub), "<DENY>", port), "stderr_tail.txt": err[-6000:]}
        core.discard(res)
        shutil.rmtree(d, ignore_errors=True)
        ctx.evals()
        want = flagword(sub)
        if "DRIVER-DONE" not in err or "SWEEP-DONE|" not in err:
            last = [l for l in err.splitlines() if l.startswith("CALL|")][-1:]
            if last and "|os/posix-exec|" in last[0] and (want & 2):
                execs = [l for l in err.splitlines() if l.startswith("SHIM|") and "|SUBPROCESS|exec" in l]
                if execs:
                    ctx.violation("forbidden-os-call:SUBPROCESS:os/posix-exec:%s" % mode, "with sandbox %s (%s): (os/posix-exec ...) replaced the process (%s) although subprocesses are disabled" %
                                  (sub, mode, execs[-1][:120]), files)
                    return
            with ctx.lock:
                ctx.inconclusive.append("driver-incomplete:%s:%s:%s rc=%s sig=%s timed_out=%s tail=%r" % (mode, ",".join(sub), last[0] if last else "?", res.rc, res.sig, res.timed_out, err[-400:]))
            return
        cur = None
        flags_by_tid = {}
        for line in err.splitlines():
            m = LINE.match(line)
            if not m:
                continue
            p = m.group(2).split("|")
            if m.group(1) == "CALL":
                cur = (p[1], int(p[2]))
                continue
            if m.group(1) == "RET":
                if sub and p[3] == "err" and cur in os_touching_ref:
                    raised_instead[0] += 1
                cur = None
                continue
            tid, fl, kind, call = p[0], int(p[1]), p[2], p[3]
            arg = p[4] if len(p) > 4 else ""
            if kind == "NOTIFY":
                prev = flags_by_tid.get(tid, 0)
                if prev & ~fl:
                    ctx.violation("capability-re-enabled", "thread %s: sandbox flags went from %#x to %#x" % (tid, prev, fl), files)
                flags_by_tid[tid] = fl
                continue
            if cur is None:
                continue
            if not sub:
                with ctx.lock:
                    os_touching.add(cur)
                    calib.setdefault(cur[0], set()).add(kind)
                continue
            bits = KIND_BITS.get(kind, 0)
            if kind == "DLOPEN":
                bits = 16 if cur[0].startswith("ffi/") else 512
            if kind == "NET_ANY":           # name resolution serves connect and listen: forbidden only when both are
                bits = 4 if (want & 12) == 12 and (fl & 12) == 12 else 0
                if (want & 12) != 12:
                    continue
            judged[0] += 1
            if fl & bits & want:
                ctx.violation("forbidden-os-call:%s:%s:%s" % (kind, cur[0], mode),
                              "with sandbox %s (%s): (%s ...) with argument shape #%d reached libc %s(%s) although %s is disabled in that thread (flags %#x)" %
                              (sub, mode, cur[0], cur[1], call, arg[-60:], kind, fl), files)
            elif (bits & want) and not (fl & bits):
                ctx.violation("sandbox-not-in-force:%s:%s" % (kind, mode), "after (sandbox %s) in mode %s, (%s ...) shape #%d made %s(%s) in a thread whose flags are %#x: the "
                              "capability is not disabled there" % (sub, mode, cur[0], cur[1], call, arg[-60:], fl), files)
        ctx.count("sweeps:" + mode)
        ctx.sample({"sandbox": sub, "mode": mode, "stderr_lines": err.count("\n")}, cap=4)

    # calibration first (its result classifies the later runs)
    os_touching_ref = os_touching
    ncal = sum(1 for sub, m in jobs if not sub)
    core.pmap(one, range(ncal), jobs=2)
    if len(os_touching) < 40:
        raise core.HarnessError("calibration saw only %d OS-touching (function, shape) pairs" % len(os_touching))
    core.pmap(one, range(ncal, len(jobs)), jobs=12)
    for pair in os_touching:
        ctx.nontriv(pair)
    ctx.extra["os_touching_functions"] = {k: sorted(v) for k, v in sorted(calib.items())}
    ctx.count("os_calls_judged_under_sandbox", judged[0])
    ctx.count("os_touching_pairs_that_raised_under_sandbox", raised_instead[0])

    # marker-effect observer (no interposer): with every capability disabled nothing in the scratch directory may change
    for mode in (["same", "thread-after"] if quick else allmodes):
        d = core.case_dir()
        setup_scratch(d)
        drv = os.path.join(d, "driver.janet")
        open(drv, "w").write(DRIVER)
        before = snapshot(d)
        res = core.run([exe, drv, mode, "all", " ".join(DENY), "1"], env={"HOME": d, "TMPDIR": d, "VERIF_ENV_VAR": "secret-value"}, timeout=400, cwd=d, san=False)
        core.discard(res)
        ctx.evals()
        after = snapshot(d)
        if "DRIVER-DONE" in res.err.decode(errors="replace"):
            changed = sorted(k for k in set(before) | set(after) if before.get(k) != after.get(k))
            ctx.count("observer_runs")
            if changed:
                ctx.violation("filesystem-changed-under-sandbox-all:" + mode, "scratch directory entries changed although every capability was disabled: %s" % changed[:10],
                              {"driver.janet": DRIVER, "args.txt": "%s all" % mode})
        else:
            with ctx.lock:
                ctx.inconclusive.append("observer-incomplete:" + mode)
        shutil.rmtree(d, ignore_errors=True)

    # hrtime, behavioural
    d = core.case_dir()
    p = os.path.join(d, "clock.janet")
    open(p, "w").write(CLOCK_PROBE)
    res = core.run([exe, p, " ".join(DENY)], timeout=300, cwd=d, san=False)
    core.discard(res)
    shutil.rmtree(d, ignore_errors=True)
    ctx.evals()
    out = res.out.decode(errors="replace")
    m = re.search(r"TRACKING (\d+)", out)
    if not m or int(m.group(1)) < 2 or "HR|thread|" not in out:
        raise core.HarnessError("clock calibration incomplete: %s %s" % (out[-300:], res.err[-300:]))
    for line in out.splitlines():
        if line.startswith("HR|") and line.endswith("RETURNED"):
            f = line.split("|")
            ctx.violation("hrtime-still-readable:%s:%s" % (f[2], f[1]), "under (sandbox :hrtime): %s" % line, {"clock.janet": CLOCK_PROBE})
    ctx.count("clock_tracking_calls", int(m.group(1)))
    ctx.extra["clock_tracking"] = [l[7:] for l in out.splitlines() if l.startswith("TRACKS ")]
