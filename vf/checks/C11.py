"""C11 — parser output depends only on the bytes; data prints and parses back.

Monitor (metamorphic): each input is fed to fresh parsers under many feedings
(whole, byte-at-a-time, random splits, interleaved status/produce/where/state
queries, clone at a boundary and continue on clone and on original). janet only
records traces; Python requires every feeding's trace of (values with the source
map of every tuple, errors) to equal the whole-input feeding's, and the
"position now" observations (where/state/status) to agree at equal consumed
offsets. JDN: canon(parse(%j v)) must equal the Python description of v."""
import os
import random

from vf import build, core
from vf.canon import Kw, Sym, Tup, Struct, Table, Buf, canon, emit, jbytes

LEVEL = "exploration"

PRELUDE = open(os.path.join(core.VERIF, "janet", "canon.janet")).read() + r'''
(defn smcanon [x]
  # canonical text incl. the source map of every tuple
  (def out @"")
  (defn go [x]
    (case (type x)
      :tuple (do (buffer/push out (if (= :brackets (tuple/type x)) "[" "(") "@" (string/join (map string (tuple/sourcemap x)) ":"))
               (each e x (buffer/push out " ") (go e))
               (buffer/push out (if (= :brackets (tuple/type x)) "]" ")")))
      :array (do (buffer/push out "@(") (each e x (buffer/push out " ") (go e)) (buffer/push out ")"))
      :struct (do (buffer/push out "{") (each k (sort (map canon (keys x))) (buffer/push out " " k))
                (each [k v] (sort (seq [[k v] :pairs x] [(canon k) v])) (buffer/push out " " k "=") (go v)) (buffer/push out "}"))
      :table (do (buffer/push out "@{") (each [k v] (sort (seq [[k v] :pairs x] [(canon k) v])) (buffer/push out " " k "=") (go v)) (buffer/push out "}"))
      (buffer/push out (canon x))))
  (go x)
  (string out))
(defn hex [s] (string/join (map |(string/format "%02x" $) s)))
(defn unhex [h] (def b @"") (for i 0 (/ (length h) 2) (buffer/push-byte b (scan-number (string "16r" (string/slice h (* 2 i) (+ 2 (* 2 i))))))) b)
(defn obs [p] (string (parser/status p) ";" (string/join (map string (parser/where p)) ":") ";" (hex (canon (parser/state p :delimiters)))))
(defn drain [p rec]
  (while (parser/has-more p) (array/push rec (string "V " (smcanon (parser/produce p)))))
  (when (= :error (parser/status p)) (array/push rec (string "E " (hex (parser/error p))))))
# feed bytes[from,to) in one consume call (continuing after errors); pos is logged per chunk
(defn feed-chunk [p bytes from to rec]
  (var i from)
  (def chunk (buffer/slice bytes from to))
  (var off 0)
  (while (< off (length chunk))
    (+= off (parser/consume p chunk off))
    (drain p rec)))
(defn run-feeding [id bytes cuts query clone-at]
  # cuts: sorted offsets where chunks end (last = length); query: log observations at each boundary
  (var p (parser/new))
  (def rec @[])
  (def posrec @[])
  (var from 0)
  (var other nil)
  (var other-rec nil)
  (each to cuts
    (feed-chunk p bytes from to rec)
    (when other (feed-chunk other bytes from to other-rec))
    (when query (array/push posrec (string to "=" (obs p))))
    (when (= to clone-at)
      (set other p)
      (set other-rec (array/slice rec))
      (set p (parser/clone p)))
    (set from to))
  (array/push posrec (string "end=" (obs p)))
  (parser/eof p)
  (drain p rec)
  (array/push posrec (string "eof=" (parser/status p)))
  (when other
    (parser/eof other) (drain other other-rec)
    (print id " ORIG " (string/join other-rec " ; ")))
  (print id " REC " (string/join rec " ; "))
  (print id " POS " (string/join posrec " , "))
  (flush))
(defn jdn-case [id v expected]
  (def r (protect (string/format "%j" v)))
  (if (r 0)
    (let [back (protect (parse (r 1)))]
      (print id " JDN " (canon v) " | " (hex (r 1)) " | " (if (back 0) (canon (back 1)) "PARSE-ERROR")))
    (print id " JDN " (canon v) " | REFUSED"))
  (flush))
'''

# ------------------------------------------------------------------ source text generator

WS = [b" ", b" ", b"\n", b"\r\n", b"\r", b"\t", b"  ", b"\n\n", b"\x00", b"\f", b"\v", b" # c\n", b"#\r\n", b"# x\r"]


def g_number(r):
    return r.choice([b"0", b"1", b"-2", b"3.5", b"-0.25", b"1e3", b"0x1F", b"2r101", b"1_000", b".5", b"+7", b"1e-3", b"0xFF:u", b"-3:s", b"1:n", b"1e", b"0x", b"--1", b"1.2.3",
                     b"9007199254740993", b"1e400", b"36rz"])


def g_symbol(r):
    return r.choice([b"a", b"abc", b"a-b", b"+", b"nil", b"true", b"false", b"x1", b"\xc3\xa9", b"\xff", b"a\xc3", b"<=", b"a/b", b"*x*", b"_", b"a.b", b"\xf0\x9f\x98\x80"])


def g_string(r):
    parts = []
    for _ in range(r.randrange(0, 5)):
        parts.append(r.choice([b"a", b"bc", b" ", b"\\n", b"\\t", b"\\\\", b'\\"', b"\\x41", b"\\x0a", b"\\u00e9", b"\\U01F600", b"\\0", b"\\e", b"\\z", b"\\r", b"\\f", b"\\v",
                               b"\n", b"\r\n", b"\xc3\xa9", b"\xff", b"\\q", b"\\xZZ", b"\\u12", b"\\x4", b"#", b"(", b"`"]))
    return b'"' + b"".join(parts) + b'"'


def g_longstring(r):
    n = r.choice([1, 1, 2, 3])
    body = b""
    for _ in range(r.randrange(0, 5)):
        body += r.choice([b"a", b"text", b"\n", b"\n  ", b"  x", b"\r\n", b"\r\n   y", b"`" * max(0, n - 1), b'"', b"\\n", b" ", b"\n\n", b"\t"])
    body = body.replace(b"`" * n, b"x")
    if body.endswith(b"`") or body.startswith(b"`"):
        body = b"." + body + b"."
    return b"`" * n + body + b"`" * n


def g_form(r, depth):
    c = r.random()
    if depth <= 0 or c < 0.45:
        k = r.random()
        if k < 0.3:
            return g_number(r)
        if k < 0.5:
            return g_symbol(r)
        if k < 0.62:
            return b":" + (g_symbol(r) if r.random() < 0.9 else b"")
        if k < 0.8:
            return (b"@" if r.random() < 0.2 else b"") + g_string(r)
        if k < 0.9:
            return (b"@" if r.random() < 0.2 else b"") + g_longstring(r)
        return r.choice([b"nil", b"true", b"false"])
    if c < 0.85:
        o, cl = r.choice([(b"(", b")"), (b"[", b"]"), (b"{", b"}"), (b"@(", b")"), (b"@[", b"]"), (b"@{", b"}")])
        n = r.randrange(0, 5)
        if o.endswith(b"{") and r.random() < 0.8:
            n = 2 * (n // 2)
        inner = b""
        for i in range(n):
            inner += r.choice(WS) if (i or r.random() < 0.3) else b""
            inner += g_form(r, depth - 1)
        if r.random() < 0.3:
            inner += r.choice(WS)
        return o + inner + cl
    return r.choice([b"'", b"~", b",", b";", b"|"]) + (r.choice(WS[:3]) if r.random() < 0.1 else b"") + g_form(r, depth - 1)


def g_source(r):
    out = b""
    for _ in range(r.randrange(1, 5)):
        out += r.choice(WS) if r.random() < 0.7 else b" "
        out += g_form(r, r.choice([0, 1, 2, 3]))
    out += r.choice(WS + [b""])
    mode = r.random()
    if mode < 0.25 and out:
        # damage: delete / insert / replace a byte, or truncate
        out = bytearray(out)
        for _ in range(r.choice([1, 1, 2])):
            i = r.randrange(len(out) + 1)
            k = r.random()
            if k < 0.35 and i < len(out):
                del out[i]
            elif k < 0.7:
                out.insert(i, r.choice(b"()[]{}\"`\\@#:'\n\r\x00\xff"))
            elif i < len(out):
                out[i] = r.choice(b"()[]{}\"`\\@x \n")
        out = bytes(out)
        if r.random() < 0.3:
            out = out[:r.randrange(len(out) + 1)]
    elif mode < 0.32:
        out = bytes(r.randrange(256) for _ in range(r.randrange(1, 40)))
    return out[:400]


# ------------------------------------------------------------------ JDN values

def g_jdn(r, depth, symok=True):
    c = r.random()
    if depth <= 0 or c < 0.45:
        k = r.random()
        if k < 0.3:
            return r.choice([0, 1, -1, 0.5, -2.25, 1e100, 1e-7, 123456789, 2 ** 53, -2 ** 31, 3.141592653589793, 1 / 3, 1e21, 5e-324])
        if k < 0.55:
            n = r.randrange(0, 6)
            return bytes(r.choice([97, 98, 32, 0, 10, 13, 9, 34, 92, 255, 127, 27, 0xc3, 0xa9, 35, 96, 1]) for _ in range(n))
        if k < 0.65:
            return Buf(bytes(r.choice([97, 0, 255, 34, 92, 10]) for _ in range(r.randrange(0, 4))))
        if k < 0.9 and r.random() < 0.4:
            # names drawn from an alphabet of reader-significant characters: whatever %j prints must read back as the same symbol / keyword, or %j must refuse
            alpha = [b":", b"-", b"+", b".", b"0", b"1", b"9", b"e", b"x", b"r", b"_", b"&", b"a", b"n", b"@", b"#", b"~", b"'", b";", b",", b"|", b"(", b" ", b"\xc3\xa9", b"\xff", b"\x00", b"\\", b"\""]
            name = b"".join(r.choice(alpha) for _ in range(r.randrange(0, 5)))
            if k < 0.78 or not symok:
                return Kw(name)
            return Sym(name)
        if k < 0.78:
            return Kw(r.choice(["a", "abc", "a-b", "+", "k1", "é", "<=", "nil", "1"]).encode())
        if k < 0.9 and symok:
            return Sym(r.choice(["a", "abc", "a-b", "+", "x1", "é", "<=", "*x*", "nil", "true", "false", "-1", "+5", ".5", "", "1e3", "-0x1", "a:b"]).encode())
        return r.choice([True, False, None])
    k = r.random()
    n = r.randrange(0, 4)
    if k < 0.3:
        return Tup([g_jdn(r, depth - 1) for _ in range(n)], bracket=r.random() < 0.4)
    if k < 0.55:
        return [g_jdn(r, depth - 1) for _ in range(n)]
    pairs, seen = [], set()
    for _ in range(n):
        key = g_jdn(r, 0)
        if key is None or isinstance(key, Buf) or (isinstance(key, float) and key != key):
            continue
        ck = canon(key)
        if ck in seen:
            continue
        seen.add(ck)
        v = g_jdn(r, depth - 1)
        if v is None:
            v = 1
        pairs.append((key, v))
    return Struct(pairs) if k < 0.8 else Table(pairs)


def contains_mutable_key(v):
    return False


# ------------------------------------------------------------------ check

def cuts_for(r, n, style):
    if style == "whole":
        return [n] if n else [0]
    if style == "bytes":
        return list(range(1, n + 1)) or [0]
    k = r.randrange(1, min(8, n) + 1) if n else 1
    pts = sorted(set(r.randrange(1, n + 1) for _ in range(k)) | {n}) if n else [0]
    return pts


def run(ctx):
    exe = build.janet("asan")
    quick = ctx.tier == "quick"
    ninputs = 2500 if quick else 150000
    njdn = 5000 if quick else 200000
    per = 40
    ctx.rule = ("token-grammar sources (numbers, symbols incl. (in)valid UTF-8, keywords, strings with all escapes, long strings with backtick counts/indentation, "
                "reader macros, six container kinds, comments, CR/LF/CRLF/NUL whitespace), seeded damage and raw random bytes; each fed whole, "
                "byte-at-a-time, in random splits with and without status/where/state queries, and with a clone at a boundary (clone and original both "
                "continued); non-trivial = input producing >=2 records or an error after offset 0 fed with a split; JDN values: nested containers, "
                "strings over control/high bytes, symbols/keywords incl. number-like and nil/true/false names")
    ctx.assumptions = ["whole-input feeding is the reference for the trace; where/state/status compared only at equal consumed offsets",
                       "canon(v) is checked against the Python description before the %j round trip is judged"]
    nb = (ninputs + per - 1) // per

    def do_batch(bi):
        r = random.Random(ctx.sub_seed("src", bi))
        lines = [PRELUDE]
        meta = {}
        for ci in range(per):
            src = g_source(r)
            n = len(src)
            lines.append('(def in%d (unhex "%s"))' % (ci, src.hex()))
            feedings = [("whole", False, None), ("bytes", False, None), ("bytes", True, None)]
            for _ in range(3 if quick else 6):
                feedings.append(("split", r.random() < 0.5, None))
            for _ in range(2 if quick else 5):
                feedings.append(("split", False, "clone"))
            feedings.append(("bytes", False, "clone"))
            for fi, (style, query, clone) in enumerate(feedings):
                cuts = cuts_for(r, n, style)
                clone_at = r.choice(cuts[:-1] or cuts) if clone else -1
                fid = "i%d_f%d" % (ci, fi)
                lines.append('(run-feeding "%s" in%d [%s] %s %d)' % (fid, ci, " ".join(str(c) for c in cuts), "true" if query else "false", clone_at))
                meta[fid] = (ci, style, query, clone_at, cuts, src)
        script = "\n".join(lines) + "\n"
        d = core.case_dir()
        path = os.path.join(d, "batch.janet")
        open(path, "w").write(script)
        res = core.run([exe, path], timeout=900, cpu=600)
        files = {"batch.janet": script}
        usable = ctx.check_result(res, files, where="parser-batch")
        recs, orig, pos = {}, {}, {}
        for line in res.out.decode(errors="replace").splitlines():
            p = line.split(" ", 2)
            if len(p) < 2:
                continue
            body = p[2] if len(p) > 2 else ""
            if p[1] == "REC":
                recs[p[0]] = body
            elif p[1] == "ORIG":
                orig[p[0]] = body
            elif p[1] == "POS":
                pos[p[0]] = body
        core.discard(res)
        by_input = {}
        for fid, m in meta.items():
            by_input.setdefault(m[0], []).append(fid)
        for ci, fids in by_input.items():
            src = meta[fids[0]][5]
            ref_id = fids[0]
            if ref_id not in recs:
                if usable:
                    ctx.violation("no-output", "no trace for input %r" % src[:80], files)
                else:
                    ctx.violation("crash-on-input", "process ended on input %r" % src[:120], dict(files, **{"input.bin": src}))
                break
            ref = recs[ref_id]
            nrec = len(ref.split(" ; ")) if ref else 0
            offsets = {}
            single = lambda fid: {"input.bin": src, "case.janet": PRELUDE + '(def in0 (unhex "%s"))\n(run-feeding "whole" in0 [%d] false -1)\n(run-feeding "other" in0 [%s] %s %d)\n' % (
                src.hex(), len(src), " ".join(str(c) for c in meta[fid][4]), "true" if meta[fid][2] else "false", meta[fid][3])}
            for fid in fids:
                ctx.evals()
                ci_, style, query, clone_at, cuts, _ = meta[fid]
                if fid not in recs:
                    ctx.violation("no-output:" + style, "no trace for feeding %s of input %r" % (fid, src[:80]), single(fid))
                    continue
                kind = style + ("+query" if query else "") + ("+clone" if clone_at >= 0 else "")
                if recs[fid] != ref:
                    ctx.violation("trace-differs:" + kind, "input %r: feeding %s (cuts %s, clone at %d) gave %r, whole-input feeding gave %r" %
                                  (src[:120], kind, cuts[:12], clone_at, recs[fid][:300], ref[:300]), single(fid))
                if clone_at >= 0 and orig.get(fid) != ref:
                    ctx.violation("original-disturbed-by-clone:" + kind, "input %r: original parser after clone at %d gave %r, reference %r" %
                                  (src[:120], clone_at, (orig.get(fid) or "")[:300], ref[:300]), single(fid))
                if (nrec >= 2 or " E " in (" " + ref)) and style != "whole":
                    ctx.nontriv((bi, ci, fid))
                # positional observations at equal offsets
                for item in (pos.get(fid) or "").split(" , "):
                    if "=" not in item:
                        continue
                    off, val = item.split("=", 1)
                    if off == "end":
                        off = str(len(src))
                    prev = offsets.get(off)
                    if prev is None:
                        offsets[off] = (val, fid)
                    elif prev[0] != val:
                        ctx.violation("position-differs:" + kind, "input %r: at consumed offset %s feeding %s observed %s but feeding %s observed %s" %
                                      (src[:120], off, fid, val[:120], prev[1], prev[0][:120]), single(fid))
            ctx.count("inputs")
            ctx.sample({"input": repr(src[:80]), "records": nrec, "feedings": len(fids)}, cap=4)

    core.pmap(do_batch, range(nb))

    # ---- JDN round trip
    nbj = (njdn + 199) // 200

    def do_jdn(bi):
        r = random.Random(ctx.sub_seed("jdn", bi))
        lines = [PRELUDE]
        exp = {}
        for ci in range(200):
            v = g_jdn(r, r.choice([0, 1, 2, 3]))
            jid = "j%d" % ci
            try:
                lines.append('(jdn-case "%s" %s nil)' % (jid, emit(v)))
            except TypeError:
                continue
            exp[jid] = v
        script = "\n".join(lines) + "\n"
        d = core.case_dir()
        path = os.path.join(d, "jdn.janet")
        open(path, "w").write(script)
        res = core.run([exe, path], timeout=600, cpu=300)
        files = {"jdn.janet": script}
        ctx.check_result(res, files, where="jdn-batch")
        got = {}
        for line in res.out.decode(errors="replace").splitlines():
            p = line.split(" ", 2)
            if len(p) == 3 and p[1] == "JDN":
                got[p[0]] = p[2]
        core.discard(res)
        for jid, v in exp.items():
            if jid not in got:
                continue
            ctx.evals()
            parts = got[jid].split(" | ")
            want = canon(v)
            single = {"case.janet": PRELUDE + '(jdn-case "j" %s nil)\n' % emit(v)}
            if parts[0] != want:
                raise core.HarnessError("JDN construction mismatch: %s vs %s for %s" % (parts[0], want, emit(v)))
            if parts[1] == "REFUSED":
                ctx.count("jdn_refused")
                continue
            ctx.count("jdn_printed")
            ctx.nontriv(("jdn", bi, jid))
            back = parts[2] if len(parts) > 2 else "?"
            if back != want:
                what = classify_jdn(v)
                ctx.violation("jdn-roundtrip:" + what, "value %s printed as %r parses back as %s" % (emit(v)[:200], bytes.fromhex(parts[1])[:200], back[:200]), single)

    core.pmap(do_jdn, range(nbj))


def classify_jdn(v):
    found = []

    def walk(x):
        if isinstance(x, Sym):
            t = x.b
            if t == b"":
                found.append("empty-symbol")
            elif t in (b"nil", b"true", b"false"):
                found.append("symbol-named-" + t.decode())
            else:
                found.append("symbol")
        elif isinstance(x, Kw):
            found.append("keyword")
        elif isinstance(x, (Tup,)):
            for e in x.items:
                walk(e)
        elif isinstance(x, list):
            for e in x:
                walk(e)
        elif isinstance(x, (Struct, Table)):
            for k, val in x.pairs:
                walk(k)
                walk(val)
        elif isinstance(x, (bytes, Buf)):
            found.append("string")
        elif isinstance(x, float):
            found.append("number")
    walk(v)
    for pref in ("empty-symbol", "symbol-named-nil", "symbol-named-true", "symbol-named-false", "symbol", "number", "keyword", "string"):
        if pref in found:
            return pref
    return "other"
