"""C10 — loading untrusted bytes or bytecode cannot corrupt memory.

Fault enumeration: from a corpus of valid images (values, functions, closures, fibers,
PEGs, channels, boxed ints) every truncation, every single-byte substitution from a
boundary set, seeded multi-byte / splice mutations and random byte strings are fed to
`unmarshal` (with the safe defaults) inside the ASan+UBSan build; hostile `asm`
descriptions are derived from real disassemblies with boundary operands. Every accepted
result is exercised (called, resumed, printed, compared, hashed, re-marshalled,
collected). The monitor is the sanitizer plus exit status: anything but "returned" or
"raised" is a violation; the culprit input is identified by per-input progress markers."""
import os
import random
import signal

from vf import build, core

LEVEL = "fault_enumeration"

CORPUS_GEN = r'''
(defn hex [s] (string/join (map |(string/format "%02x" $) s)))
(def vals @[])
(defn add [tag v] (array/push vals [tag v]))
(add "int" 100000) (add "real" 1.5) (add "str" "hello world") (add "sym" 'a-symbol) (add "kw" :keyword) (add "buf" @"buffer")
(add "tuple" [1 "two" :three [4 5] @[6]]) (add "btuple" '[1 2 3]) (add "array" @[1 @[2 @[3]] "s"])
(add "struct" {:a 1 "b" [2] 3 {:c 4}}) (add "table" @{:a 1 :b @{:c 2}}) (add "proto" (table/setproto @{:x 1} @{:y 2}))
(add "sproto" (struct/with-proto {:p 1} :q 2))
(def cyc @[1 2]) (array/push cyc cyc) (add "cycle" cyc)
(def shared @{:s 1}) (add "sharing" [shared shared @{:k shared}])
(add "s64" (int/s64 "-9223372036854775808")) (add "u64" (int/u64 "18446744073709551615"))
(add "fn-simple" (fn [x] (+ x 1)))
(add "fn-vararg" (fn [a &opt b & c] [a b c]))
(add "fn-keys" (fn [&keys {:a a :b b}] [a b]))
(add "fn-consts" (fn [x] (string "const" x :kw [1 2 3] {:a "b"})))
(add "fn-loop" (fn [n] (var s 0) (for i 0 n (+= s i)) s))
(add "fn-nested-defs" (fn [x] (map (fn [y] (+ x y)) [1 2 3])))
(defn mk [] (var n 0) [(fn [] (++ n)) (fn [] n)])
(add "closures" (mk))
(add "closure-deep" ((fn [a] (fn [b] (fn [c] (fn [] [a b c])))) 1))
(def gen (fiber/new (fn [] (for i 0 5 (yield i)) :done))) (resume gen) (resume gen)
(add "fiber-suspended" gen)
(add "fiber-new" (fiber/new (fn [x] (yield x) x)))
(def withchild (fiber/new (fn [] (def ch (fiber/new (fn [] (yield 1) (yield 2)))) (yield (resume ch)) (yield (resume ch)))))
(resume withchild) (add "fiber-child" withchild)
(def errf (fiber/new (fn [] (error "boom")) :e)) (resume errf) (add "fiber-error" errf)
(def envf (fiber/new (fn [] (setdyn :x 1) (yield 1) (dyn :x)) :yp)) (resume envf) (add "fiber-env" envf)
(var captured 10) (def capf (fiber/new (fn [] (forever (yield (++ captured)))))) (resume capf) (add "fiber-closure-env" [capf (fn [] captured)])
(def holder @[])
(def ff (fiber/new (fn [] (var local 1) (array/push holder (fn [] (++ local))) (yield 1) (yield local) local)))
(resume ff)
(add "fiber-frame-closure" [ff (holder 0)])
(add "closure-then-its-fiber" [(holder 0) ff])
(def holder2 @[])
(def ff2 (fiber/new (fn [a] (def inner (fiber/new (fn [] (var z a) (array/push holder2 (fn [] z) (fn [v] (set z v))) (yield z) z))) (yield (resume inner)) (resume inner))))
(resume ff2 5)
(add "nested-fiber-frame-closures" @{:f ff2 :c holder2})
(add "peg" (peg/compile ~{:main (* (<- :d+ :n) (any (* "," (-> :n) (<- :a))) (% (some (if-not "," 1)))) }))
(add "peg2" (peg/compile ~(* (int 2) (lenprefix (number :d) "x") (cmt (<- 1) ,identity) (sub (to ";") (<- :w+)) (split "," :d))))
(def ch (ev/chan 4)) (ev/give ch 1) (ev/give ch "two") (add "channel" ch)
(add "mixed" @{:f (fn [] 1) :g gen :p (peg/compile "a") :i (int/s64 7) :t [1 2]})
(defn frames-meta [tag v depth]
  # for fibers: saved pc and bytecode length of every frame (guides boundary substitutions of the pc field)
  (cond
    (fiber? v) (each fr (debug/stack v)
                 (when (and (function? (fr :function)) (number? (fr :pc)))
                   (print "META " tag " " (fr :pc) " " (length ((disasm (fr :function)) :bytecode)))))
    (and (< depth 2) (or (indexed? v) (dictionary? v))) (each x v (frames-meta tag x (+ depth 1)))))
(each [tag v] vals
  (def r (protect (marshal v make-image-dict)))
  (when (r 0) (print tag " " (hex (r 1))) (frames-meta tag v 0)))
'''

DRIVER = r'''
(defn unhex [h] (def b @"") (for i 0 (/ (length h) 2) (buffer/push-byte b (scan-number (string "16r" (string/slice h (* 2 i) (+ 2 (* 2 i))))))) b)
# the harness sends SIGALRM periodically; the handler interrupts the interpreter, which ends a looping sub-fiber
# (status :interrupted) while the driver's own task fiber is simply rescheduled
(os/sigaction :alrm (fn [] nil) true)
(eprint "READY")
(def mode (get (dyn :args) 1))
(def lines (string/split "\n" (slurp (get (dyn :args) 2))))
(def start (scan-number (get (dyn :args) 3)))
(var accepted 0) (var rejected 0) (var exercised 0)
(defn budget [thunk]
  # bounded stack; a function that loops for ever is caught by the harness's CPU limit and skipped, never judged
  (def f (fiber/new thunk :a))
  (fiber/setmaxstack f 4096)
  (protect (resume f)))
(defn check-frames [v]
  # invariant on an ACCEPTED fiber, read through the debugger interface: every frame's saved pc lies inside its function's bytecode
  (def st (protect (debug/stack v)))
  (when (st 0)
    (each fr (st 1)
      (def f (get fr :function)) (def pc (get fr :pc))
      (when (and (function? f) (number? pc))
        (def bc (protect (length (get (disasm f) :bytecode))))
        (when (and (bc 0) (not (and (>= pc 0) (< pc (bc 1)))))
          (eprint "INVARIANT frame-pc-outside-bytecode pc=" pc " length=" (bc 1)))))))
(defn exercise [v depth]
  (protect (string/format "%p" v)) (protect (string/format "%j" v)) (protect (string/format "%q" v)) (protect (describe v))
  (protect (= v v)) (protect (hash v)) (protect (compare v v)) (protect (deep= v [v]))
  (protect (marshal v make-image-dict))
  (cond
    (function? v) (do (protect (disasm v))
                    (each args [[] [1] [nil "s"] [@[] {} :k] [1 2 3 4 5 6 7 8]] (budget (fn [] (v ;args)))))
    (fiber? v) (do (protect (fiber/status v)) (protect (fiber/last-value v)) (protect (fiber/getenv v)) (check-frames v)
                 (budget (fn [] (resume v 1))) (budget (fn [] (resume v))) (budget (fn [] (cancel v :x))))
    (= (type v) :core/peg) (do (protect (peg/match v "12,a,b;abc")) (protect (peg/match v "")) (protect (peg/find-all v "\x01\x02x;1,2")))
    (= (type v) :core/channel) (do (protect (ev/count v)) (protect (ev/capacity v)) (protect (ev/full v))
                                 # only operations that cannot park the driver: a give is issued only when there is room
                                 (when (= false (first (protect (ev/full v)))) nil)
                                 (protect (ev/chan-close v)) (protect (ev/take v)))
    (and (< depth 3) (or (indexed? v) (dictionary? v)))
    (do (var n 0) (each x v (when (< (++ n) 8) (exercise x (+ depth 1))))
      (when (dictionary? v) (var m 0) (eachk k v (when (< (++ m) 8) (exercise k (+ depth 1))))
        (protect (get v :zzz)) (protect (table/getproto v))))
    nil))
(var i -1)
(each line lines
  (++ i)
  (when (and (>= i start) (> (length line) 0))
    (eprint "B " i)
    (if (= mode "asm")
      (let [desc (protect (parse line))]
        (when (desc 0)
          (def r (protect (asm (desc 1))))
          (if (r 0) (do (++ accepted) (exercise (r 1) 0) (++ exercised)) (++ rejected))))
      (let [bytes (unhex line)
            r (protect (unmarshal bytes load-image-dict))]
        (if (r 0)
          (do (++ accepted) (when (= mode "exercise") (exercise (r 1) 0) (++ exercised)))
          (++ rejected))))
    (when (= 0 (% i 16)) (gccollect))))
(gccollect)
(eprint "END accepted=" accepted " rejected=" rejected " exercised=" exercised)
(os/exit 0)   # the installed signal handler would otherwise keep the event loop (and the process) alive
'''

SUBST = [0x00, 0x01, 0x7F, 0x80, 0xBF, 0xC0, 0xFF] + list(range(0xC8, 0xE9))


def mutants_for(img, rng, quick):
    out = []
    n = len(img)
    step = 1 if n <= 400 or not quick else max(1, n // 300)
    for cut in range(0, n, step):
        out.append(img[:cut])
    subst = SUBST if not quick else rng.sample(SUBST, 10) + [0x80, 0xFF, 0xCD]
    for off in range(0, n, step):
        for b in subst:
            if img[off] != b:
                m = bytearray(img)
                m[off] = b
                out.append(bytes(m))
    # seeded multi-byte damage: +-1 on a byte, swapped neighbours, inserted/deleted bytes, duplicated spans
    for _ in range(60 if quick else 600):
        m = bytearray(img)
        for _ in range(rng.choice([1, 2, 3])):
            if not m:
                break
            k = rng.random()
            off = rng.randrange(len(m))
            if k < 0.25:
                m[off] = (m[off] + rng.choice([1, -1, 2, 128])) & 0xFF
            elif k < 0.45:
                m.insert(off, rng.choice(SUBST))
            elif k < 0.6:
                del m[off]
            elif k < 0.8:
                ln = rng.randrange(1, 9)
                m[off:off] = m[off:off + ln]
            else:
                m[off:off + 4] = bytes(rng.choice([0, 0xFF, 0x7F, 0x80]) for _ in range(4))
        out.append(bytes(m))
    return out


def asm_descs(rng, count):
    """Hostile asm descriptions as janet data text (parsed by the driver)."""
    ops = ["noop", "ret 0", "retn", "ldi 0 1", "ldn 0", "ldt 1", "ldc 0 0", "movn 0 1", "movf 0 1", "add 0 0 1", "addim 0 0 1", "jmp 0", "jmp 1", "jmp -1", "jmpif 0 1",
           "call 0 0", "tcall 0", "push 0", "push2 0 1", "push3 0 1 2", "pusha 0", "get 0 0 1", "put 0 1 2", "geti 0 0 0", "len 0 0", "clo 0 0", "ldu 0 0 0",
           "setu 0 0 0", "lds 0", "mktup 0", "mkarr 0", "res 0 0 1", "sig 0 0 0", "prop 0 0 1", "err 0", "in 0 0 1", "next 0 0 1", "cncl 0 0 1", "band 0 0 1",
           "eqim 0 0 1", "cmp 0 0 1", "mkstru 0", "mktab 0", "mkbuf 0", "mkstr 0", "mkbtp 0", "lter 0 0 1", "typecheck 0 0"]
    BND = [0, 1, 2, 3, 255, 256, 65535, 65536, -1, -2, 127, 128, 2147483647, -2147483648, 16777215]
    out = []
    for _ in range(count):
        n = rng.randrange(1, 8)
        code = []
        for _ in range(n):
            o = rng.choice(ops).split()
            args = [str(rng.choice(BND)) if rng.random() < 0.5 else a for a in o[1:]]
            if rng.random() < 0.1:
                args = args[:-1] if args else ["0"]
            if rng.random() < 0.05:
                args.append("0")
            code.append("(%s%s)" % (o[0], (" " + " ".join(args)) if args else ""))
        if rng.random() < 0.6:
            code.append(rng.choice(["(ret 0)", "(retn)", "(tcall 0)", "(jmp -1)", "(err 0)"]))
        fields = [":bytecode @[%s]" % " ".join(code)]
        for key, vals in (("arity", BND), ("min-arity", BND), ("max-arity", BND), ("slotcount", BND), ("vararg", ["true", "false", "1"]),
                          ("structarg", ["true", "false"])):
            if rng.random() < 0.4:
                fields.append(":%s %s" % (key, rng.choice(vals)))
        if rng.random() < 0.5:
            fields.append(":constants @[%s]" % " ".join(rng.choice(["1", '"s"', ":k", "nil", "(quote (1 2))", "@[]"]) for _ in range(rng.randrange(0, 4))))
        if rng.random() < 0.3:
            fields.append(":environments @[%s]" % " ".join(str(rng.choice(BND)) for _ in range(rng.randrange(0, 3))))
        if rng.random() < 0.25:
            fields.append(":defs @[{:bytecode @[(ret 0)] :slotcount %s :arity %s}]" % (rng.choice(BND), rng.choice(BND)))
        if rng.random() < 0.2:
            fields.append(":sourcemap @[%s]" % " ".join("(%s %s)" % (rng.choice(BND), rng.choice(BND)) for _ in range(rng.randrange(0, 4))))
        if rng.random() < 0.2:
            fields.append(":symbolmap @[(%s %s %s x)]" % (rng.choice(BND), rng.choice(BND), rng.choice(BND)))
        if rng.random() < 0.1:
            fields.append(":name %s :source %s" % (rng.choice(['"n"', "1", ":k"]), rng.choice(['"s"', "nil", "@[]"])))
        out.append("{%s}" % " ".join(fields))
    return out


def run_inputs(ctx, exe, d, name, mode, lines, files_base, cls=None):
    """Run a batch; restart after the culprit when the process dies or exceeds its CPU budget."""
    inp = os.path.join(d, name + ".txt")
    with open(inp, "w") as fh:
        fh.write("\n".join(lines) + "\n")
    drv = os.path.join(d, "driver.janet")
    # signature prefix: for unmarshal images the class of the parent image (E = carries environment / frame data of closures or fibers,
    # which janet validates lazily - one known class of defects; P = plain values, functions without captured environments, PEGs, channels)
    pfx = mode if cls is None else "%s:%s" % (mode, cls)
    start = 0
    total = len(lines)
    guard = 0
    while start < total and guard < 400:
        guard += 1
        res = core.run([exe, drv, mode, inp, str(start)], timeout=150, cpu=60, mem_mb=None, tick=(signal.SIGALRM, 1.5, 0.25))
        err = res.err.decode(errors="replace")
        core.discard(res)
        last_b = -1
        for line in err.splitlines():
            if line.startswith("B "):
                try:
                    last_b = int(line[2:])
                except ValueError:
                    pass
            elif line.startswith("INVARIANT ") and 0 <= last_b < total:
                ctx.violation("%s:invariant:%s" % (pfx, line.split()[1]), "accepted value breaks a structural invariant: %s (input %s...)" % (line, lines[last_b][:80]),
                              dict(files_base, **{"input.txt": lines[last_b] + "\n", "mode.txt": mode}))
        ended = "END accepted=" in err
        if ended:
            tail = err[err.rindex("END accepted="):].split()
            ctx.count("accepted_" + mode, int(tail[1].split("=")[1]))
            ctx.count("rejected_" + mode, int(tail[2].split("=")[1]))
            ctx.count("exercised", int(tail[3].split("=")[1]))
            ctx.evals(total - start)
            # sanitizer reports without death (recoverable UB) are still collected
            ctx.note_ub(res.ub)
            for kind, sig, text in res.san:
                if "janet_signal_trampoline" in text:
                    ctx.count("harness_tick_selfpipe_full")     # our own SIGALRM ticks filled the self-pipe of a busy interpreter: harness artefact
                    continue
                ctx.violation("%s:%s" % (pfx, sig), "sanitizer report during batch %s: %s" % (name, text[:300]), dict(files_base, **{"sanitizer.txt": text}))
            return
        culprit = lines[last_b] if 0 <= last_b < total else ""
        cfiles = dict(files_base, **{"input.txt": culprit + "\n", "mode.txt": mode, "stderr_tail.txt": err[-3000:]})
        ctx.evals(max(0, last_b - start + 1))
        if res.timed_out or res.sig == signal.SIGXCPU:
            if mode == "unmarshal":
                ctx.violation("hang:unmarshal", "unmarshal did not return on input %s..." % culprit[:80], cfiles)
            else:
                ctx.count("exercise_unbounded")   # an accepted function may legitimately loop: not judged
        elif res.san and "janet_signal_trampoline" in res.san[0][2]:
            ctx.count("harness_tick_selfpipe_full")
            with ctx.lock:
                ctx.inconclusive.append("tick-selfpipe-full:" + name)
        elif res.san:
            for kind, sig, text in res.san[:1]:
                ctx.violation("%s:%s" % (pfx, sig), "sanitizer report on input %s...: %s" % (culprit[:80], text[:300]), dict(cfiles, **{"sanitizer.txt": text}))
        elif res.sig is not None:
            ctx.violation("%s:signal-%s" % (pfx, signal.Signals(res.sig).name), "process died on input %s..." % culprit[:80], cfiles)
        else:
            tail = err.strip().splitlines()[-1][:100] if err.strip() else ""
            import re
            ctx.violation("%s:process-exit:%s" % (pfx, re.sub(r"0x[0-9a-fA-F]+|\d+", "N", tail)), "process exited (status %s) on input %s...; stderr tail %s" % (res.rc, culprit[:80], tail), cfiles)
        start = last_b + 1 if last_b >= start else start + 1


def run(ctx):
    exe = build.janet("asan")
    quick = ctx.tier == "quick"
    ctx.rule = ("corpus of ~40 valid images (values, functions with varargs/keys/consts/nested defs, closure families, suspended fibers with children/envs, PEGs, "
                "channels, boxed ints, cycles, prototypes); per image: every truncation, every single-byte substitution from {0,1,7F,80,BF,C0,C8..E8,FF}, "
                "seeded multi-byte damage; random byte strings; hostile asm descriptions with boundary operands; each accepted result exercised; "
                "non-trivial = mutant that differs from its image beyond the first byte (got past the lead-byte dispatch); distinct by bytes")
    ctx.assumptions = ["unmarshal is called with the default (safe) flags and the standard lookup dictionary", "an accepted function that loops is interrupted or skipped, never judged",
                       "absence of a sanitizer report is not memory safety"]
    d = core.case_dir()
    open(os.path.join(d, "driver.janet"), "w").write(DRIVER)
    cg = os.path.join(d, "corpus.janet")
    open(cg, "w").write(CORPUS_GEN)
    # relative script name: the source path is embedded in every function image, and the corpus (hence every mutant) must not depend on the run directory
    res = core.run([exe, "corpus.janet"], timeout=120, cwd=d)
    corpus = []
    meta = {}
    for line in res.out.decode(errors="replace").splitlines():
        if line.startswith("META "):
            _, tag, pc, ln = line.split(" ")
            meta.setdefault(tag, set()).add((int(pc), int(ln)))
            continue
        tag, hx = line.split(" ")
        corpus.append((tag, bytes.fromhex(hx)))
    core.discard(res)
    if len(corpus) < 30:
        raise core.HarnessError("corpus generation failed: %s" % res.err.decode(errors="replace")[-500:])
    files_base = {"driver.janet": DRIVER}
    jobs = []
    rng = ctx.rng
    for tag, img in corpus:
        muts = mutants_for(img, random.Random(ctx.sub_seed("m", tag)), quick)
        # field-guided boundary values: wherever a byte equals a frame's saved pc, try the neighbourhood of that function's bytecode length
        for pc, ln in sorted(meta.get(tag, ())):
            if pc < 0x80:
                for pos in range(len(img)):
                    if img[pos] == pc:
                        for v in (ln - 1, ln, ln + 1, ln + 2):
                            if 0 <= v < 0x80:
                                muts.append(img[:pos] + bytes([v]) + img[pos + 1:])
                                ctx.count("pc_field_guided_mutants")
        # unique, and count the ones that got past the first byte
        seen = set()
        uniq = []
        for m in muts:
            if m not in seen:
                seen.add(m)
                uniq.append(m)
        for k in range(0, len(uniq), 4000):
            jobs.append((tag + "_%d" % k, "exercise", [m.hex() for m in uniq[k:k + 4000]]))
        for m in uniq:
            if len(m) > 1 and m[:1] == img[:1]:
                ctx.nontriv(hash(m))
        ctx.count("images")
    # splices and random bytes
    r2 = random.Random(ctx.sub_seed("rand"))
    rnd = []
    for _ in range(3000 if quick else 100000):
        k = r2.random()
        if k < 0.5:
            a, b = r2.choice(corpus)[1], r2.choice(corpus)[1]
            rnd.append((a[:r2.randrange(len(a) + 1)] + b[r2.randrange(len(b) + 1):]).hex())
        else:
            n = r2.randrange(1, 64)
            rnd.append(bytes([r2.choice(SUBST)] + [r2.randrange(256) for _ in range(n)]).hex())
    for k in range(0, len(rnd), 4000):
        jobs.append(("random_%d" % k, "exercise", rnd[k:k + 4000]))
    descs = asm_descs(random.Random(ctx.sub_seed("asm")), 6000 if quick else 300000)
    for k in range(0, len(descs), 3000):
        jobs.append(("asm_%d" % k, "asm", descs[k:k + 3000]))
    ctx.sample({"corpus_tags": [t for t, _ in corpus][:12], "example_mutant_hex": jobs[0][2][5][:80] if jobs and len(jobs[0][2]) > 5 else "", "example_asm": descs[0][:200]}, cap=2)

    def one(j):
        name, mode, lines = jobs[j]
        sub = core.case_dir()
        open(os.path.join(sub, "driver.janet"), "w").write(DRIVER)
        cls = None
        if mode == "exercise":
            cls = "E" if name.startswith(("closure", "fiber", "nested-fiber", "mixed", "random")) else "P"
        run_inputs(ctx, exe, sub, name, mode, lines, files_base, cls)
    core.pmap(one, range(len(jobs)))
