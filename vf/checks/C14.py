"""C14 — arithmetic on numbers and boxed 64-bit integers.

Oracle: Python big integers reduced modulo 2^64 (with sign reinterpretation)
and Python floats (IEEE-754 doubles) implement the documented conventions.
Results travel as type tag + decimal text (boxed) or raw double bits (numbers)."""
import math
import os
import struct

from vf import build, core

LEVEL = "exploration"

M64 = (1 << 64) - 1
SKIP = ("skip",)
ERR = ("err",)
EITHER_ERR = "either"   # error or the given value both accepted

DRIVER = r'''
(def lines (string/split "\n" (slurp (get (dyn :args) 1))))
(defn hex8 [x] (def b @"") (buffer/push-float64 b :be x) (string/join (map |(string/format "%02x" $) b)))
(def ops {"+" + "-" - "*" * "/" / "div" div "mod" mod "%" % "band" band "bor" bor "bxor" bxor
          "blshift" blshift "brshift" brshift "brushift" brushift "bnot" bnot
          "compare" compare "compare<" compare< "compare<=" compare<= "compare=" compare= "compare>" compare> "compare>=" compare>=
          "=" = "not=" not= "<" < "<=" <= ">" > ">=" >=
          "to-number" int/to-number "s64" int/s64 "u64" int/u64
          "to-bytes-le" (fn [x] (int/to-bytes x :le)) "to-bytes-be" (fn [x] (int/to-bytes x :be))
          "m+" (fn [a b] (:+ a b)) "m-" (fn [a b] (:- a b)) "m*" (fn [a b] (:* a b)) "m/" (fn [a b] (:/ a b))
          "mmod" (fn [a b] (:mod a b)) "m%" (fn [a b] (:% a b)) "mdiv" (fn [a b] (:div a b))
          "mr-" (fn [a b] (:r- a b)) "mr/" (fn [a b] (:r/ a b)) "mrmod" (fn [a b] (:rmod a b)) "mr%" (fn [a b] (:r% a b)) "mrdiv" (fn [a b] (:rdiv a b))
          "m&" (fn [a b] (:& a b)) "m|" (fn [a b] ((get a (keyword "|")) a b)) "m^" (fn [a b] (:^ a b)) "m<<" (fn [a b] (:<< a b)) "m>>" (fn [a b] (:>> a b))
          "mcompare" (fn [a b] (:compare a b))})
(defn mk [ty txt]
  (case ty
    "n" (unmarshal (let [b @"\xC8"] (loop [i :down-to [7 0]] (buffer/push-byte b (scan-number (string "0x" (string/slice txt (* 2 i) (+ 2 (* 2 i))))))) b))
    "s" (int/s64 txt)
    "u" (int/u64 txt)
    "t" txt
    (error "bad type")))
(defn show [v]
  (cond
    (number? v) (string "n:" (hex8 v))
    (= (type v) :core/s64) (string "s:" v)
    (= (type v) :core/u64) (string "u:" v)
    (boolean? v) (string "b:" v)
    (nil? v) "nil"
    (bytes? v) (string "x:" (string/join (map |(string/format "%02x" $) v)))
    (string "o:" (type v))))
(each line lines
  (when (> (length line) 0)
    (def parts (string/split " " line))
    (def f (ops (parts 0)))
    (def args (seq [i :range [1 (length parts) 2]] (mk (parts i) (parts (+ i 1)))))
    (def r (protect (f ;args)))
    (print (if (r 0) (show (r 1)) "E"))))
'''


def dbits(x):
    return struct.pack(">d", x).hex()


def to_signed(v):
    v &= M64
    return v - (1 << 64) if v >> 63 else v


def boxed(t, v):
    return (t, to_signed(v) if t == "s" else v & M64)


def is_int_double(x):
    return not math.isinf(x) and not math.isnan(x) and x == math.floor(x)


def convert(T, opnd):
    """Convert operand (type, value) to raw 64-bit pattern for target type T, or None if it does not fit."""
    t, v = opnd
    if t in ("s", "u"):
        return v & M64
    if t == "n":
        if math.isnan(v) or math.isinf(v) or v != math.floor(v):
            return None
        iv = int(v)
        if T == "s":
            if not (-2 ** 53 <= iv <= 2 ** 53):
                return None
        else:
            if not (0 <= iv <= 2 ** 53):
                return None
        return iv & M64
    if t == "t":
        try:
            iv = int(v, 0) if v.lower().startswith(("0x", "-0x")) else int(v)
        except ValueError:
            return None
        if T == "s" and not (-2 ** 63 <= iv < 2 ** 63):
            return None
        if T == "u" and not (0 <= iv < 2 ** 64):
            return None
        return iv & M64
    return None


def ffloor(q):
    if math.isnan(q) or math.isinf(q) or q == 0:
        return q
    return float(math.floor(q))


def num_binop(op, x, y):
    try:
        if op == "+":
            return x + y
        if op == "-":
            return x - y
        if op == "*":
            return x * y
        if op == "/":
            return fdiv(x, y)
        if op == "div":
            return ffloor(fdiv(x, y))
        if op == "mod":
            if y == 0:
                return x
            return x - y * ffloor(fdiv(x, y))
        if op == "%":
            if math.isnan(x) or math.isnan(y) or math.isinf(x) or y == 0:
                return float("nan")
            if math.isinf(y):
                return x
            return math.fmod(x, y)
    except OverflowError:
        return None
    return None


def fdiv(x, y):
    if y == 0:
        if x == 0 or math.isnan(x):
            return float("nan")
        neg = (math.copysign(1, x) < 0) != (math.copysign(1, y) < 0)
        return float("-inf") if neg else float("inf")
    try:
        return x / y
    except OverflowError:
        return float("inf")


def int_binop(op, T, a, b):
    """a, b raw 64-bit patterns; returns result tuple / ERR / SKIP / ('either', val)."""
    sa, sb = (to_signed(a), to_signed(b)) if T == "s" else (a, b)
    if op == "+":
        return boxed(T, sa + sb)
    if op == "-":
        return boxed(T, sa - sb)
    if op == "*":
        return boxed(T, sa * sb)
    if op in ("/", "%", "div", "mod"):
        if sb == 0:
            if op == "mod":
                return boxed(T, sa)
            return ERR
        if T == "s" and sa == -2 ** 63 and sb == -1:
            # listed guard: raising is accepted, so is the wrapped two's-complement result
            wrapped = boxed(T, -2 ** 63) if op in ("/", "div") else boxed(T, 0)
            return (EITHER_ERR, wrapped)
        if op == "/":
            q = abs(sa) // abs(sb)
            return boxed(T, -q if (sa < 0) != (sb < 0) else q)
        if op == "%":
            r = abs(sa) % abs(sb)
            return boxed(T, -r if sa < 0 else r)
        if op == "div":
            return boxed(T, sa // sb)
        if op == "mod":
            return boxed(T, sa % sb)
    if op == "band":
        return boxed(T, a & b)
    if op == "bor":
        return boxed(T, a | b)
    if op == "bxor":
        return boxed(T, a ^ b)
    if op in ("blshift", "brshift", "brushift"):
        cnt = sb
        if not (0 <= cnt <= 63):
            return SKIP  # C undefined behaviour; not promised by the property
        if op == "blshift":
            return boxed(T, a << cnt)
        if op == "brshift":
            return boxed(T, sa >> cnt)
        if op == "brushift":
            return boxed(T, a >> cnt)
    return SKIP


BOX_OPS = {"+": "+", "-": "-", "*": "*", "/": "/", "div": "div", "mod": "mod", "%": "%", "band": "band", "bor": "bor", "bxor": "bxor",
           "blshift": "blshift", "brshift": "brshift", "brushift": "brushift"}
NO_REVERSE = ("blshift", "brshift", "brushift")
METHOD_OPS = {"m+": "+", "m-": "-", "m*": "*", "m/": "/", "mmod": "mod", "m%": "%", "mdiv": "div", "m&": "band", "m|": "bor", "m^": "bxor",
              "m<<": "blshift", "m>>": "brshift"}
RMETHOD_OPS = {"mr-": "-", "mr/": "/", "mrmod": "mod", "mr%": "%", "mrdiv": "div"}


def exact(opnd):
    """Exact mathematical value of an operand for comparisons (None for NaN / strings)."""
    t, v = opnd
    if t == "n":
        if math.isnan(v):
            return None
        return v
    if t in ("s", "u"):
        return v
    return None


def cmp_exact(x, y):
    # Python compares int and float exactly
    return -1 if x < y else (1 if x > y else 0)


def expected(op, A, B=None):
    """Return ('n', float) | ('s', int) | ('u', int) | ('b', bool) | ('x', hex) | ERR | SKIP | ('either', val)."""
    if op in BOX_OPS or op in METHOD_OPS or op in RMETHOD_OPS:
        if op in METHOD_OPS:
            if A[0] not in ("s", "u"):
                return SKIP
            base = METHOD_OPS[op]
            T = A[0]
            a = A[1] & M64
            b = convert(T, B)
            if b is None:
                return ERR
            return int_binop(base, T, a, b)
        if op in RMETHOD_OPS:
            if A[0] not in ("s", "u"):
                return SKIP
            base = RMETHOD_OPS[op]
            T = A[0]
            # (:r- a b) computes b - a in a's type
            bb = convert(T, B)
            if bb is None:
                return ERR
            return int_binop(base, T, bb, A[1] & M64)
        if A[0] == "n" and B[0] == "n":
            if op in ("band", "bor", "bxor", "blshift", "brshift", "brushift"):
                return bit32(op, A[1], B[1])
            r = num_binop(op, A[1], B[1])
            return SKIP if r is None else ("n", r)
        if A[0] == "t" and B[0] in ("n", "t"):
            return SKIP  # strings without a boxed operand: outside the statement
        if B[0] == "t" and A[0] == "n":
            return SKIP
        if A[0] in ("s", "u"):
            T = A[0]
            a = A[1] & M64
            b = convert(T, B)
            if b is None:
                return ERR
            return int_binop(op, T, a, b)
        # left is number/string, right boxed: reversed method of the right operand
        if B[0] in ("s", "u"):
            if op in NO_REVERSE:
                return ERR
            T = B[0]
            a = convert(T, A)
            if a is None:
                return ERR
            return int_binop(op, T, a, B[1] & M64)
        return SKIP
    if op == "bnot":
        if A[0] in ("s", "u"):
            return boxed(A[0], ~(A[1] & M64))
        if A[0] == "n":
            if is_int_double(A[1]) and -2 ** 31 <= A[1] < 2 ** 31:
                return ("n", float(~int(A[1])))
            return SKIP
        return SKIP
    if op.startswith("compare") or op == "mcompare":
        x, y = exact(A), exact(B)
        if x is None or y is None:
            return SKIP
        if op == "mcompare" and A[0] not in ("s", "u"):
            return SKIP
        c = cmp_exact(x, y)
        if op in ("compare", "mcompare"):
            return ("n", float(c))
        rel = op[len("compare"):]
        return ("b", {"<": c < 0, "<=": c <= 0, "=": c == 0, ">": c > 0, ">=": c >= 0}[rel])
    if op in ("=", "not=", "<", "<=", ">", ">="):
        # primitive relations: numeric meaning only promised between same-typed operands
        if A[0] != B[0] or A[0] not in ("n", "s", "u"):
            if op in ("=", "not=") and A[0] in ("n", "s", "u") and B[0] in ("n", "s", "u"):
                return ("b", op == "not=")   # different types are never =
            return SKIP
        x, y = exact(A), exact(B)
        if x is None or y is None:
            return SKIP
        c = cmp_exact(x, y)
        return ("b", {"=": c == 0, "not=": c != 0, "<": c < 0, "<=": c <= 0, ">": c > 0, ">=": c >= 0}[op])
    if op == "to-number":
        if A[0] not in ("s", "u"):
            return SKIP
        if -2 ** 53 <= A[1] <= 2 ** 53:
            return ("n", float(A[1]))
        return ERR
    if op in ("s64", "u64"):
        T = "s" if op == "s64" else "u"
        r = convert(T, A)
        if r is None:
            return ERR
        return boxed(T, r)
    if op in ("to-bytes-le", "to-bytes-be"):
        if A[0] not in ("s", "u"):
            return SKIP
        raw = (A[1] & M64).to_bytes(8, "little" if op.endswith("le") else "big")
        return ("x", raw.hex())
    return SKIP


def bit32(op, x, y):
    if not (is_int_double(x) and is_int_double(y)):
        return ERR if not (math.isnan(x) or math.isnan(y)) else SKIP
    xi, yi = int(x), int(y)
    if op == "brushift":
        if not (0 <= xi < 2 ** 32):
            return ERR
    elif not (-2 ** 31 <= xi < 2 ** 31):
        return ERR
    if not (-2 ** 31 <= yi < 2 ** 31):
        return ERR
    def s32(v):
        v &= 0xFFFFFFFF
        return v - (1 << 32) if v >> 31 else v
    if op == "band":
        return ("n", float(s32(xi & yi)))
    if op == "bor":
        return ("n", float(s32(xi | yi)))
    if op == "bxor":
        return ("n", float(s32(xi ^ yi)))
    if not (0 <= yi <= 31):
        return SKIP  # C undefined behaviour (x86 masks the count); logged by UBSan builds only
    if op == "blshift":
        if xi < 0:
            return SKIP  # left shift of a negative int is C UB; two's-complement value not promised by the compiler
        return ("n", float(s32(xi << yi)))
    if op == "brshift":
        return ("n", float(xi >> yi))
    if op == "brushift":
        return ("n", float((xi & 0xFFFFFFFF) >> yi))
    return SKIP


INTS = sorted(set(
    [0, 1, -1, 2, -2, 3, -3, 7, -7, 10, 63, 64, 65, 127, 128, 255, 256]
    + [s * (2 ** k + d) for k in (31, 32, 53, 62, 63, 64) for d in (-2, -1, 0, 1, 2) for s in (1, -1)]))


def gen_operand(rng):
    """Return (type, value, text)."""
    k = rng.random()
    if k < 0.3:
        v = rng.choice(INTS + [rng.getrandbits(64), -rng.getrandbits(63), rng.getrandbits(63), rng.randrange(-100, 100)])
        if -2 ** 63 <= v < 2 ** 63:
            return ("s", v, str(v))
        v &= M64
        return ("u", v, str(v))
    if k < 0.55:
        v = rng.choice(INTS + [rng.getrandbits(64), rng.getrandbits(63), rng.randrange(0, 100)])
        v &= M64
        return ("u", v, str(v))
    if k < 0.93:
        c = rng.random()
        if c < 0.55:
            iv = rng.choice(INTS + [rng.randrange(-100, 100), rng.randrange(-2 ** 31, 2 ** 31), rng.randrange(0, 2 ** 32)])
            f = float(iv)
        elif c < 0.8:
            f = rng.choice([0.5, -0.5, 1.5, -1.5, 2.75, 1e10 + 0.5, 1e19, -1e19, 1e30, -1e30, 1.8446744073709552e19, 9.223372036854775e18,
                            -9.223372036854775e18, 9.223372036854778e18, 9007199254740993.0, 0.1, -0.0, 5e-324, 1e308,
                            float(2 ** 63), float(-2 ** 63), float(2 ** 64), float(2 ** 53), float(2 ** 53 + 2), float(-2 ** 53 - 2)])
        elif c < 0.9:
            f = rng.choice([float("inf"), float("-inf")])
        else:
            f = rng.uniform(-1e6, 1e6)
        return ("n", f, dbits(f))
    v = rng.choice([0, 1, -1, 3, 7, -7, 100, 2 ** 31, 2 ** 53 + 1, 2 ** 63 - 1, -2 ** 63, 2 ** 63, 2 ** 64 - 1, 2 ** 64])
    t = rng.choice([str(v), str(v), ("-" if v < 0 else "") + hex(abs(v))])
    if rng.random() < 0.08:
        t = rng.choice(["abc", "1.5", "", "1e3"])
    return ("t", t, t)


BIN = (list(BOX_OPS) * 3 + list(METHOD_OPS) + list(RMETHOD_OPS)
       + ["compare", "compare<", "compare<=", "compare=", "compare>", "compare>=", "mcompare"] * 2 + ["=", "not=", "<", "<=", ">", ">="])
UN = ["bnot", "to-number", "s64", "u64", "to-bytes-le", "to-bytes-be"]


def make_case(rng):
    if rng.random() < 0.12:
        op = rng.choice(UN)
        A = gen_operand(rng)
        line = "%s %s %s" % (op, A[0], A[2])
        return op, (A[0], A[1]), None, line
    op = rng.choice(BIN)
    A = gen_operand(rng)
    B = gen_operand(rng)
    if op in ("blshift", "brshift", "brushift", "m<<", "m>>") and rng.random() < 0.8:
        c = rng.choice([0, 1, 2, 31, 32, 33, 62, 63, rng.randrange(0, 64)])
        B = rng.choice([("n", float(c), dbits(float(c))), ("s", c, str(c)), ("u", c, str(c))])
    if " " in A[2] or " " in B[2] or A[2] == "" or B[2] == "":
        A = ("n", 1.0, dbits(1.0)) if (" " in A[2] or A[2] == "") else A
        B = ("n", 1.0, dbits(1.0)) if (" " in B[2] or B[2] == "") else B
    line = "%s %s %s %s %s" % (op, A[0], A[2], B[0], B[2])
    return op, (A[0], A[1]), (B[0], B[1]), line


def fmt_expected(e):
    if e is ERR:
        return "E"
    t, v = e
    if t == "n":
        return "n:" + dbits(v)
    if t in ("s", "u"):
        return "%s:%d" % (t, v)
    if t == "b":
        return "b:" + ("true" if v else "false")
    if t == "x":
        return "x:" + v
    return "?"


def matches(e, got, op=""):
    if op in ("compare", "mcompare") and e is not ERR and e[0] == "n" and e[1] == 0 and got in ("n:0000000000000000", "n:8000000000000000"):
        return True   # (compare a b) may be computed as (- (:compare b a)): -0 = 0
    if e[0] == EITHER_ERR:
        return got == "E" or got == fmt_expected(e[1])
    want = fmt_expected(e)
    if want == got:
        return True
    if e is not ERR and e[0] == "n" and got.startswith("n:"):
        # NaN payload/sign is not specified
        try:
            g = struct.unpack(">d", bytes.fromhex(got[2:]))[0]
        except Exception:
            return False
        if math.isnan(e[1]) and math.isnan(g):
            return True
    return False


def run(ctx):
    exe = build.janet("plain")
    quick = ctx.tier == "quick"
    total = 300000 if quick else 8000000
    per = 5000
    ctx.rule = ("(operator, operand pair) drawn from boundary-dense sets in every type mix (number/s64/u64/numeric string), both orders, "
                "functions and :method forms; non-trivial = at least one boxed operand, or result outside +-2^53, or specified to raise; "
                "distinct by input line")
    ctx.assumptions = ["Python int/float arithmetic is exact/IEEE-754", "shift counts outside 0..63 (0..31 for numbers) and left shifts of negative "
                       "32-bit numbers are C undefined behaviour and are not judged", "INT64_MIN / -1 (and %, div, mod) may raise or wrap",
                       "primitive < <= > >= across different numeric types is type order (documented), judged only for same-typed operands"]
    d = core.case_dir()
    drv = os.path.join(d, "driver.janet")
    with open(drv, "w") as fh:
        fh.write(DRIVER)
    rng = ctx.rng
    nb = (total + per - 1) // per
    seeds = [rng.getrandbits(48) for _ in range(nb)]

    def do_batch(i):
        import random
        r = random.Random(seeds[i])
        cases = []
        for _ in range(per):
            op, A, B, line = make_case(r)
            e = expected(op, A, B) if B is not None else expected(op, A)
            if e is SKIP:
                continue
            cases.append((op, A, B, line, e))
        inp = os.path.join(d, "in%d.txt" % i)
        with open(inp, "w") as fh:
            for c in cases:
                fh.write(c[3] + "\n")
        res = core.run([exe, drv, inp], timeout=300, cpu=200)
        files = {"driver.janet": DRIVER, "input.txt": open(inp).read()}
        os.unlink(inp)
        if not ctx.check_result(res, files, where="batch"):
            # a batch that died: bisect to find the line that kills the process
            if res.crashed:
                find_killer(ctx, exe, drv, d, cases, i)
            core.discard(res)
            return
        lines = res.out.decode(errors="replace").splitlines()
        core.discard(res)
        if len(lines) != len(cases):
            ctx.violation("driver-output-mismatch", "driver printed %d lines for %d cases: %s" % (len(lines), len(cases), res.err[-400:]), files)
            return
        for (op, A, B, line, e), got in zip(cases, lines):
            ctx.evals()
            judge(ctx, op, A, B, line, e, got)

    core.pmap(do_batch, range(nb))


def find_killer(ctx, exe, drv, d, cases, i):
    lo, hi = 0, len(cases)
    # find first prefix that crashes
    def crashes(n):
        inp = os.path.join(d, "bis%d.txt" % i)
        with open(inp, "w") as fh:
            for c in cases[:n]:
                fh.write(c[3] + "\n")
        r = core.run([exe, drv, inp], timeout=300, cpu=200)
        core.discard(r)
        return r.crashed
    while hi - lo > 1:
        mid = (lo + hi) // 2
        if crashes(mid):
            hi = mid
        else:
            lo = mid
    op, A, B, line, e = cases[hi - 1]
    cls = classify(op, A, B)
    ctx.violation("crash:%s:%s" % (op, cls), "process killed while evaluating %r" % line, {"driver.janet": DRIVER, "input.txt": line + "\n"})


def classify(op, A, B):
    def c(o):
        if o is None:
            return "-"
        t, v = o
        if t in ("s", "u"):
            sv = v
            if t == "s" and sv == -2 ** 63:
                return "s64min"
            if t == "s" and sv == -1:
                return "s-1"
            return t + ("neg" if (t == "s" and sv < 0) else "")
        if t == "n":
            if v == -1:
                return "n-1"
            return "n"
        return "t"
    return c(A) + "," + c(B)


def judge(ctx, op, A, B, line, e, got):
    nontrivial = A[0] in ("s", "u") or (B is not None and B[0] in ("s", "u")) or e is ERR
    if nontrivial:
        ctx.nontriv(line)
    ctx.count("op:" + (op if not op.startswith("m") or op == "mod" else "method"))
    if matches(e, got, op):
        ctx.sample({"input": line, "observed": got}, cap=6)
        return
    want = "error-or-%s" % fmt_expected(e[1]) if e[0] == EITHER_ERR else fmt_expected(e)
    kind = "raise-mismatch" if (got == "E") != (want == "E") else "value"
    ctx.violation("%s:%s:%s" % (kind, op, classify(op, A, B)),
                  "%s gave %s, expected %s" % (line, got, want), {"driver.janet": DRIVER, "input.txt": line + "\n", "expected.txt": want})
