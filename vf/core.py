"""Shared machinery: case runner, sanitizer-report detection, verdicts,
known-findings matching, evidence writing."""
import fnmatch
import hashlib
import json
import os
import random
import re
import resource
import shutil
import signal
import subprocess
import sys
import tempfile
import threading
import time
from concurrent.futures import ThreadPoolExecutor

VERIF = os.path.dirname(os.path.dirname(os.path.abspath(__file__)))
# evidence and replay witnesses go to /verif unless a seeded-change test run redirects them (bin/mutant-test2)
OUT = os.environ.get("VERIF_OUT", VERIF)
NCPU = int(os.environ.get("VERIF_JOBS", "16"))

ASAN_OPTS = ("detect_leaks=0:detect_stack_use_after_return=1:allocator_may_return_null=1:"
             "abort_on_error=0:exitcode=97:handle_abort=1")
UBSAN_OPTS = "print_stacktrace=1:exitcode=97"
TSAN_OPTS = "halt_on_error=0:exitcode=0:second_deadlock_stack=1:history_size=4"


import ctypes
_libc = ctypes.CDLL(None, use_errno=True)


class HarnessError(Exception):
    pass


class Result:
    __slots__ = ("rc", "sig", "out", "err", "timed_out", "wall", "san", "ub", "dir")

    def __init__(self):
        self.rc = None
        self.sig = None
        self.out = b""
        self.err = b""
        self.timed_out = False
        self.wall = 0.0
        self.san = []   # fatal sanitizer reports (memory errors, races): list of (kind, signature, text)
        self.ub = []    # recoverable arithmetic UB observations: list of "file:line kind"
        self.dir = None

    @property
    def crashed(self):
        return self.sig is not None and not self.timed_out


_scratch_root = None
_scratch_lock = threading.Lock()


def scratch_root():
    global _scratch_root
    with _scratch_lock:
        if _scratch_root is None:
            _scratch_root = tempfile.mkdtemp(prefix="verif-run-%d-" % os.getpid(), dir="/var/tmp")
    return _scratch_root


def cleanup_scratch():
    global _scratch_root
    if _scratch_root:
        shutil.rmtree(_scratch_root, ignore_errors=True)
        _scratch_root = None


_case_counter = [0]


def case_dir():
    with _scratch_lock:
        _case_counter[0] += 1
        n = _case_counter[0]
    d = os.path.join(scratch_root(), "c%07d" % n)
    os.makedirs(d)
    return d


_FRAME_RE = re.compile(r"#\d+ 0x[0-9a-f]+ in (\S+)")
_UB_RE = re.compile(r"([\w./-]+):(\d+):\d+: runtime error: (.*)")
_UB_SOFT = ("signed integer overflow", "shift exponent", "left shift of", "is outside the range of representable values",
            "null pointer passed as argument")


def parse_san_logs(d, extra_text=b""):
    """Collect sanitizer reports from log files in directory d (asan.*, ubsan.*, tsan.*)."""
    san, ub = [], []
    texts = []
    if d and os.path.isdir(d):
        for f in sorted(os.listdir(d)):
            if f.startswith(("asan.", "ubsan.", "tsan.")):
                try:
                    with open(os.path.join(d, f), "rb") as fh:
                        texts.append(fh.read().decode(errors="replace"))
                except OSError:
                    pass
    if extra_text:
        texts.append(extra_text.decode(errors="replace"))
    for t in texts:
        # UBSan lines
        for m in _UB_RE.finditer(t):
            msg = m.group(3)
            loc = "%s:%s" % (os.path.basename(m.group(1)), m.group(2))
            if any(k in msg for k in _UB_SOFT):
                ub.append(loc + " " + msg.split(":")[0][:60])
            else:
                # find frames after this line
                tail = t[m.end():m.end() + 1500]
                frames = _FRAME_RE.findall(tail)[:3]
                san.append(("ubsan", "ubsan:%s:%s" % (re.sub(r"[0-9]+", "N", msg)[:50], "/".join(frames[:2])), t[m.start():m.start() + 2500]))
        for m in re.finditer(r"ERROR: AddressSanitizer: (\S+)", t):
            tail = t[m.end():m.end() + 3000]
            frames = [f for f in _FRAME_RE.findall(tail) if not f.startswith(("__asan", "__interceptor", "__sanitizer"))][:3]
            san.append(("asan", "asan:%s:%s" % (m.group(1), "/".join(frames[:3])), t[m.start():m.start() + 6000]))
        for m in re.finditer(r"WARNING: ThreadSanitizer: ([^\n(]+)", t):
            end = t.find("==================", m.end())
            block = t[m.start(): end if end > 0 else m.start() + 6000]
            # outermost user frames of each stack
            stacks = re.split(r"\n\s*\n", block)
            tops = []
            for s in stacks:
                fr = [f for f in _FRAME_RE.findall(s) if not f.startswith(("__tsan", "__interceptor", "pthread_"))]
                if fr:
                    tops.append(fr[0])
            san.append(("tsan", "tsan:%s:%s" % (m.group(1).strip().replace(" ", "-"), "/".join(tops[:2])), block[:6000]))
    return san, ub


def run(cmd, env=None, stdin=b"", timeout=60, cwd=None, cpu=None, mem_mb=None, stack_kb=None,
        san=True, keep_dir=False, nproc=None, fsize_mb=None, tick=None):
    """Run one process with rlimits and a wall-clock watchdog. Returns Result."""
    r = Result()
    d = case_dir()
    r.dir = d
    e = dict(os.environ)
    e.pop("LD_PRELOAD", None)
    e["ASAN_OPTIONS"] = ASAN_OPTS + ":log_path=" + os.path.join(d, "asan")
    e["UBSAN_OPTIONS"] = UBSAN_OPTS + ":log_path=" + os.path.join(d, "ubsan")
    e["TSAN_OPTIONS"] = TSAN_OPTS + ":log_path=" + os.path.join(d, "tsan")
    e["JANET_PATH"] = os.path.join(d, "nojanetpath")
    if env:
        e.update(env)

    def pre():
        os.setsid()
        try:
            _libc.prctl(1, signal.SIGKILL)    # PR_SET_PDEATHSIG: no orphans when the check itself is killed
        except Exception:
            pass
        if cpu:
            resource.setrlimit(resource.RLIMIT_CPU, (cpu, cpu + 2))
        if mem_mb:
            resource.setrlimit(resource.RLIMIT_AS, (mem_mb << 20, mem_mb << 20))
        if stack_kb:
            resource.setrlimit(resource.RLIMIT_STACK, (stack_kb << 10, stack_kb << 10))
        if fsize_mb:
            resource.setrlimit(resource.RLIMIT_FSIZE, (fsize_mb << 20, fsize_mb << 20))
        resource.setrlimit(resource.RLIMIT_CORE, (0, 0))

    t0 = time.time()
    try:
        p = subprocess.Popen(cmd, stdin=subprocess.PIPE, stdout=subprocess.PIPE, stderr=subprocess.PIPE,
                             env=e, cwd=cwd or d, preexec_fn=pre)
    except OSError as ex:
        raise HarnessError("cannot start %r: %s" % (cmd, ex))
    if tick:
        # periodic signal (sig, first_delay, period): lets the program bound its own sub-computations
        def _ticker():
            time.sleep(tick[1])
            while p.poll() is None:
                try:
                    os.kill(p.pid, tick[0])
                except OSError:
                    return
                time.sleep(tick[2])
        threading.Thread(target=_ticker, daemon=True).start()
    try:
        r.out, r.err = p.communicate(stdin, timeout=timeout)
    except subprocess.TimeoutExpired:
        r.timed_out = True
        try:
            os.killpg(p.pid, signal.SIGKILL)
        except OSError:
            pass
        r.out, r.err = p.communicate()
    finally:
        try:
            os.killpg(p.pid, signal.SIGKILL)
        except OSError:
            pass
    r.wall = time.time() - t0
    if p.returncode < 0:
        r.sig = -p.returncode
        r.rc = None
    else:
        r.rc = p.returncode
    if san:
        r.san, r.ub = parse_san_logs(d, extra_text=r.err if (b"runtime error:" in r.err or b"Sanitizer" in r.err) else b"")
    if not keep_dir:
        # keep only if something interesting; caller may copy
        pass
    return r


def discard(r):
    if r.dir:
        shutil.rmtree(r.dir, ignore_errors=True)
        r.dir = None


def pmap(fn, items, jobs=None):
    """Parallel map over items preserving order; exceptions propagate."""
    jobs = jobs or NCPU
    with ThreadPoolExecutor(jobs) as ex:
        return list(ex.map(fn, items))


def load_known():
    p = os.path.join(VERIF, "known_findings.json")
    if not os.path.exists(p):
        return []
    with open(p) as fh:
        return json.load(fh).get("findings", [])


class Ctx:
    """Per-check-run context: collects violations, counters, samples; writes evidence."""

    def __init__(self, prop, tier, seed, level="exploration"):
        self.prop = prop
        self.tier = tier
        self.seed = seed
        self.level = level
        self.t0 = time.time()
        self.rng = random.Random((seed * 1000003) ^ int(hashlib.sha256(prop.encode()).hexdigest()[:8], 16))
        self.violations = {}      # signature -> dict(what, replay, count)
        self.known_hits = {}      # signature -> (what, count)
        self.inconclusive = []
        self.counters = {}
        self.samples = []
        self.ub = {}
        self.evaluations = 0
        self.nontrivial = set()
        self.rule = ""
        self.assumptions = []
        self.extra = {}
        self.known = [k for k in load_known() if k.get("property") == prop]
        self.lock = threading.Lock()
        self.replay_root = os.path.join(OUT, "replay", prop)
        shutil.rmtree(self.replay_root, ignore_errors=True)   # witnesses belong to the current run only

    def sub_seed(self, *parts):
        h = hashlib.sha256(("%d|%s|" % (self.seed, self.prop) + "|".join(str(p) for p in parts)).encode()).hexdigest()
        return int(h[:12], 16)

    def count(self, name, n=1):
        with self.lock:
            self.counters[name] = self.counters.get(name, 0) + n

    def evals(self, n=1):
        with self.lock:
            self.evaluations += n

    def nontriv(self, key):
        with self.lock:
            self.nontrivial.add(key if isinstance(key, (str, int, tuple)) else repr(key))

    def sample(self, s, cap=6):
        with self.lock:
            if len(self.samples) < cap:
                self.samples.append(s)

    def note_ub(self, ub_list):
        with self.lock:
            for u in ub_list:
                self.ub[u] = self.ub.get(u, 0) + 1

    def _match_known(self, signature):
        for k in self.known:
            if k.get("status", "known") != "known":
                continue
            if fnmatch.fnmatchcase(signature, k["signature"]):
                return k
        return None

    def violation(self, signature, what, files=None):
        """Report a violation. files: dict name -> bytes/str written as the replay witness."""
        signature = self.prop + ":" + signature if not signature.startswith(self.prop + ":") else signature
        with self.lock:
            k = self._match_known(signature)
            if k is not None:
                e = self.known_hits.setdefault(k["signature"], [k["what"], 0])
                e[1] += 1
                return False
            v = self.violations.get(signature)
            if v:
                v["count"] += 1
                return True
            h = hashlib.sha256(signature.encode()).hexdigest()[:10]
            path = os.path.join(self.replay_root, h)
            shutil.rmtree(path, ignore_errors=True)
            os.makedirs(path, exist_ok=True)
            for name, content in (files or {}).items():
                mode = "wb" if isinstance(content, bytes) else "w"
                with open(os.path.join(path, name), mode) as fh:
                    fh.write(content)
            with open(os.path.join(path, "VIOLATION.txt"), "w") as fh:
                fh.write("property=%s\nsignature=%s\nseed=%d tier=%s\n\n%s\n" % (self.prop, signature, self.seed, self.tier, what))
            self.violations[signature] = dict(what=what, replay=path, count=1)
            return True

    def check_result(self, r, files, where="", allow_timeout=False, allow_nonzero=True):
        """Route the generic bad endings of a process (sanitizer report, fatal signal, watchdog)
        through violation/inconclusive handling. Returns True if the result is usable."""
        ok = True
        self.note_ub(r.ub)
        for kind, sig, text in r.san:
            f = dict(files)
            f["sanitizer.txt"] = text
            self.violation("%s%s" % (where + ":" if where else "", sig), "sanitizer report: " + text[:400], f)
            ok = False
        if r.timed_out or r.sig == signal.SIGXCPU:
            # wall-clock watchdog or CPU rlimit: inconclusive, never a verdict (checks that judge hangs do so explicitly)
            if not allow_timeout:
                with self.lock:
                    self.inconclusive.append(where + ":watchdog")
            return False
        if r.crashed and ok:
            f = dict(files)
            f["stderr.txt"] = r.err[-4000:]
            name = signal.Signals(r.sig).name if r.sig in [s.value for s in signal.Signals] else str(r.sig)
            tail = r.err.decode(errors="replace").strip().splitlines()[-1:] or [""]
            tailn = re.sub(r"0x[0-9a-fA-F]+|\d+", "N", tail[0])[:60]
            self.violation("%s%s:%s" % (where + ":" if where else "", "signal-" + name, tailn),
                           "process died with %s; stderr tail: %s" % (name, r.err[-300:].decode(errors="replace")), f)
            return False
        return ok

    def finish(self, coverage_extra=None, min_evals=1, min_nontrivial=2):
        wall = time.time() - self.t0
        cov = dict(evaluations=int(self.evaluations), distinct_nontrivial=len(self.nontrivial),
                   rule=self.rule, samples=self.samples[:8], counters=self.counters,
                   inconclusive=len(self.inconclusive))
        if self.ub:
            cov["ub_observations"] = dict(sorted(self.ub.items())[:40])
        if self.known_hits:
            cov["known_findings_reproduced"] = {k: v[1] for k, v in self.known_hits.items()}
        cov.update(self.extra)
        if coverage_extra:
            cov.update(coverage_extra)
        ev = dict(property_id=self.prop, tier=self.tier, seed=self.seed, level=self.level, coverage=cov,
                  assumptions=self.assumptions, wall_s=round(wall, 2), violations=len(self.violations))
        os.makedirs(os.path.join(OUT, "evidence"), exist_ok=True)
        harness_fail = None
        if self.evaluations < min_evals or len(self.nontrivial) < min_nontrivial:
            harness_fail = "too little observed: evaluations=%d distinct_nontrivial=%d" % (self.evaluations, len(self.nontrivial))
        if self.evaluations and len(self.inconclusive) > max(3, 0.05 * self.evaluations):
            harness_fail = "too many inconclusive cases: %d of %d (%s)" % (len(self.inconclusive), self.evaluations, self.inconclusive[:5])
        if not self.samples:
            harness_fail = harness_fail or "no samples recorded"
        if not harness_fail or self.violations:
            with open(os.path.join(OUT, "evidence", self.prop + ".json"), "w") as fh:
                json.dump(ev, fh, indent=1, default=str)
        for sig, (what, n) in sorted(self.known_hits.items()):
            print("KNOWN-FINDING: property=%s %s [signature %s, reproduced %d times]" % (self.prop, what, sig, n))
        for sig, v in sorted(self.violations.items()):
            print("VIOLATION property=%s replay=%s signature=%s count=%d :: %s" % (self.prop, v["replay"], sig, v["count"], v["what"][:300].replace("\n", " ")))
        print("%s %s seed=%d: evaluations=%d distinct_nontrivial=%d inconclusive=%d violations=%d known=%d wall=%.1fs counters=%s" % (
            self.prop, self.tier, self.seed, self.evaluations, len(self.nontrivial), len(self.inconclusive),
            len(self.violations), len(self.known_hits), wall, json.dumps(self.counters, sort_keys=True)))
        cleanup_scratch()
        if self.violations:
            return 1
        if harness_fail:
            print("HARNESS-FAILURE property=%s %s" % (self.prop, harness_fail))
            return 2
        return 0


def jstr(b):
    """Janet string literal for bytes/str (always safe)."""
    if isinstance(b, str):
        b = b.encode()
    out = ['"']
    for c in b:
        if c == 0x22:
            out.append('\\"')
        elif c == 0x5C:
            out.append("\\\\")
        elif 32 <= c < 127:
            out.append(chr(c))
        else:
            out.append("\\x%02X" % c)
    out.append('"')
    return "".join(out)
