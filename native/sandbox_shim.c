/* LD_PRELOAD interposer for C18: logs libc calls made by the janet process together with the
 * sandbox flags in force in the calling thread (learned through hook H3,
 * janet_verif_sandbox_notify). Lines go to stderr: SHIM|<tid>|<flags>|<KIND>|<call>|<arg>
 * Only janet's own call sites go through the PLT and are seen; libc-internal calls are not. */
#define _GNU_SOURCE
#include <dlfcn.h>
#include <fcntl.h>
#include <stdarg.h>
#include <stdint.h>
#include <stdio.h>
#include <stdlib.h>
#include <string.h>
#include <unistd.h>
#include <signal.h>
#include <dirent.h>
#include <spawn.h>
#include <sys/mman.h>
#include <sys/socket.h>
#include <sys/stat.h>
#include <sys/syscall.h>
#include <sys/time.h>
#include <sys/types.h>

static __thread uint32_t tl_flags;
static __thread int tl_busy;
static pid_t shim_pid;

void janet_verif_sandbox_notify(uint32_t flags) {
    char buf[96];
    tl_flags = flags;
    if (getpid() != shim_pid) return;
    int n = snprintf(buf, sizeof buf, "SHIM|%ld|%u|NOTIFY|sandbox|\n", (long) syscall(SYS_gettid), flags);
    if (n > 0) (void) !write(2, buf, (size_t) n);
}

/* only the process the harness started is monitored: programs it spawns inherit LD_PRELOAD but stay silent */
__attribute__((constructor)) static void shim_init(void) {
    const char *e = getenv("VERIF_SHIM_PID");
    if (e && *e) {
        shim_pid = (pid_t) atol(e);
    } else {
        char b[32];
        shim_pid = getpid();
        snprintf(b, sizeof b, "%ld", (long) shim_pid);
        int (*real_setenv)(const char *, const char *, int) = (int (*)(const char *, const char *, int)) dlsym(RTLD_NEXT, "setenv");
        real_setenv("VERIF_SHIM_PID", b, 1);
    }
}

static void shim_log(const char *kind, const char *call, const char *arg) {
    if (tl_busy || getpid() != shim_pid) return;
    /* the entropy device is a fixed path read by os/cryptorand, not file-system content */
    if (arg && strcmp(arg, "/dev/urandom") == 0) return;
    tl_busy = 1;
    char buf[400];
    int n = snprintf(buf, sizeof buf, "SHIM|%ld|%u|%s|%s|%.200s\n", (long) syscall(SYS_gettid), tl_flags, kind, call, arg ? arg : "");
    if (n > 0) (void) !write(2, buf, (size_t) (n < (int) sizeof buf ? n : (int) sizeof buf - 1));
    tl_busy = 0;
}

#define REAL(name) static __typeof__(name) *real = NULL; if (!real) real = (__typeof__(name) *) dlsym(RTLD_NEXT, #name)

static const char *open_kind(int flags) {
    if ((flags & O_ACCMODE) == O_RDWR) return "FS_READWRITE";
    if ((flags & O_ACCMODE) != O_RDONLY || (flags & (O_CREAT | O_TRUNC | O_APPEND))) return "FS_WRITE";
    return "FS_READ";
}

int open(const char *path, int flags, ...) {
    REAL(open);
    mode_t mode = 0;
    if (flags & (O_CREAT | O_TMPFILE)) { va_list ap; va_start(ap, flags); mode = va_arg(ap, mode_t); va_end(ap); }
    shim_log(open_kind(flags), "open", path);
    return real(path, flags, mode);
}
int open64(const char *path, int flags, ...) {
    REAL(open64);
    mode_t mode = 0;
    if (flags & (O_CREAT | O_TMPFILE)) { va_list ap; va_start(ap, flags); mode = va_arg(ap, mode_t); va_end(ap); }
    shim_log(open_kind(flags), "open64", path);
    return real(path, flags, mode);
}
int openat(int dirfd, const char *path, int flags, ...) {
    REAL(openat);
    mode_t mode = 0;
    if (flags & (O_CREAT | O_TMPFILE)) { va_list ap; va_start(ap, flags); mode = va_arg(ap, mode_t); va_end(ap); }
    shim_log(open_kind(flags), "openat", path);
    return real(dirfd, path, flags, mode);
}
int creat(const char *path, mode_t mode) { REAL(creat); shim_log("FS_WRITE", "creat", path); return real(path, mode); }
static const char *fopen_kind(const char *m) { if (m && strchr(m, '+')) return "FS_READWRITE"; return (m && (strchr(m, 'w') || strchr(m, 'a') || strchr(m, '+'))) ? "FS_WRITE" : "FS_READ"; }
FILE *fopen(const char *path, const char *m) { REAL(fopen); shim_log(fopen_kind(m), "fopen", path); return real(path, m); }
FILE *fopen64(const char *path, const char *m) { REAL(fopen64); shim_log(fopen_kind(m), "fopen64", path); return real(path, m); }
FILE *freopen(const char *path, const char *m, FILE *f) { REAL(freopen); shim_log(fopen_kind(m), "freopen", path); return real(path, m, f); }
DIR *opendir(const char *path) { REAL(opendir); shim_log("FS_READ", "opendir", path); return real(path); }
int stat(const char *path, struct stat *st) { REAL(stat); shim_log("FS_READ", "stat", path); return real(path, st); }
int lstat(const char *path, struct stat *st) { REAL(lstat); shim_log("FS_READ", "lstat", path); return real(path, st); }
struct stat64;
int stat64(const char *path, struct stat64 *st) { static int (*real)(const char *, struct stat64 *); if (!real) real = (int (*)(const char *, struct stat64 *)) dlsym(RTLD_NEXT, "stat64"); shim_log("FS_READ", "stat64", path); return real(path, st); }
int lstat64(const char *path, struct stat64 *st) { static int (*real)(const char *, struct stat64 *); if (!real) real = (int (*)(const char *, struct stat64 *)) dlsym(RTLD_NEXT, "lstat64"); shim_log("FS_READ", "lstat64", path); return real(path, st); }
int access(const char *path, int m) { REAL(access); shim_log("FS_READ", "access", path); return real(path, m); }
ssize_t readlink(const char *path, char *b, size_t n) { REAL(readlink); shim_log("FS_READ", "readlink", path); return real(path, b, n); }
char *realpath(const char *path, char *out) { REAL(realpath); shim_log("FS_READ", "realpath", path); return real(path, out); }
int chdir(const char *path) { REAL(chdir); shim_log("FS_READ", "chdir", path); return real(path); }
int unlink(const char *path) { REAL(unlink); shim_log("FS_WRITE", "unlink", path); return real(path); }
int remove(const char *path) { REAL(remove); shim_log("FS_WRITE", "remove", path); return real(path); }
int rename(const char *a, const char *b) { REAL(rename); shim_log("FS_WRITE", "rename", a); return real(a, b); }
int mkdir(const char *path, mode_t m) { REAL(mkdir); shim_log("FS_WRITE", "mkdir", path); return real(path, m); }
int rmdir(const char *path) { REAL(rmdir); shim_log("FS_WRITE", "rmdir", path); return real(path); }
int link(const char *a, const char *b) { REAL(link); shim_log("FS_WRITE", "link", b); return real(a, b); }
int symlink(const char *a, const char *b) { REAL(symlink); shim_log("FS_WRITE", "symlink", b); return real(a, b); }
int chmod(const char *path, mode_t m) { REAL(chmod); shim_log("FS_WRITE", "chmod", path); return real(path, m); }
int truncate(const char *path, off_t n) { REAL(truncate); shim_log("FS_WRITE", "truncate", path); return real(path, n); }
int utimes(const char *path, const struct timeval t[2]) { REAL(utimes); shim_log("FS_WRITE", "utimes", path); return real(path, t); }
int utimensat(int d, const char *path, const struct timespec t[2], int f) { REAL(utimensat); shim_log("FS_WRITE", "utimensat", path); return real(d, path, t, f); }
int mkfifo(const char *path, mode_t m) { REAL(mkfifo); shim_log("FS_WRITE", "mkfifo", path); return real(path, m); }
struct utimbuf;
int utime(const char *path, const struct utimbuf *t) { static int (*real)(const char *, const struct utimbuf *); if (!real) real = (int (*)(const char *, const struct utimbuf *)) dlsym(RTLD_NEXT, "utime"); shim_log("FS_WRITE", "utime", path); return real(path, t); }
FILE *tmpfile64(void) { static FILE *(*real)(void); if (!real) real = (FILE *(*)(void)) dlsym(RTLD_NEXT, "tmpfile64"); shim_log("FS_TEMP", "tmpfile64", ""); return real(); }
FILE *tmpfile(void) { REAL(tmpfile); shim_log("FS_TEMP", "tmpfile", ""); return real(); }
int mkstemp(char *t) { REAL(mkstemp); shim_log("FS_TEMP", "mkstemp", t); return real(t); }

int connect(int fd, const struct sockaddr *a, socklen_t l) { REAL(connect); shim_log("NET_CONNECT", "connect", ""); return real(fd, a, l); }
int bind(int fd, const struct sockaddr *a, socklen_t l) { REAL(bind); shim_log("NET_LISTEN", "bind", ""); return real(fd, a, l); }
int listen(int fd, int n) { REAL(listen); shim_log("NET_LISTEN", "listen", ""); return real(fd, n); }
int accept(int fd, struct sockaddr *a, socklen_t *l) { REAL(accept); shim_log("NET_LISTEN", "accept", ""); return real(fd, a, l); }
int accept4(int fd, struct sockaddr *a, socklen_t *l, int f) { REAL(accept4); shim_log("NET_LISTEN", "accept4", ""); return real(fd, a, l, f); }

pid_t fork(void) { REAL(fork); shim_log("SUBPROCESS", "fork", ""); return real(); }
int posix_spawn(pid_t *p, const char *path, const posix_spawn_file_actions_t *fa, const posix_spawnattr_t *at, char *const argv[], char *const envp[]) {
    REAL(posix_spawn); shim_log("SUBPROCESS", "posix_spawn", path); return real(p, path, fa, at, argv, envp);
}
int posix_spawnp(pid_t *p, const char *path, const posix_spawn_file_actions_t *fa, const posix_spawnattr_t *at, char *const argv[], char *const envp[]) {
    REAL(posix_spawnp); shim_log("SUBPROCESS", "posix_spawnp", path); return real(p, path, fa, at, argv, envp);
}
int execve(const char *path, char *const argv[], char *const envp[]) { REAL(execve); shim_log("SUBPROCESS", "execve", path); return real(path, argv, envp); }
int execv(const char *path, char *const argv[]) { REAL(execv); shim_log("SUBPROCESS", "execv", path); return real(path, argv); }
int execvp(const char *path, char *const argv[]) { REAL(execvp); shim_log("SUBPROCESS", "execvp", path); return real(path, argv); }
int system(const char *cmd) { REAL(system); shim_log("SUBPROCESS", "system", cmd); return real(cmd); }
FILE *popen(const char *cmd, const char *m) { REAL(popen); shim_log("SUBPROCESS", "popen", cmd); return real(cmd, m); }
int kill(pid_t pid, int sig) { REAL(kill); char b[32]; snprintf(b, sizeof b, "%d", (int) pid); shim_log("SUBPROCESS", "kill", b); return real(pid, sig); }

char *getenv(const char *name) {
    REAL(getenv);
    /* the verification hooks read their own switches; libc start-up reads its own variables before any interpreter exists */
    if (name && strncmp(name, "JANET_VERIF", 11) != 0 && strcmp(name, "VERIF_SHIM_PID") != 0) shim_log("ENV", "getenv", name);
    return real(name);
}
char *secure_getenv(const char *name) { REAL(secure_getenv); shim_log("ENV", "secure_getenv", name); return real(name); }
int setenv(const char *name, const char *v, int o) { REAL(setenv); shim_log("ENV", "setenv", name); return real(name, v, o); }
int unsetenv(const char *name) { REAL(unsetenv); shim_log("ENV", "unsetenv", name); return real(name); }
int putenv(char *s) { REAL(putenv); shim_log("ENV", "putenv", s); return real(s); }
int clearenv(void) { REAL(clearenv); shim_log("ENV", "clearenv", ""); return real(); }

void *dlopen(const char *path, int flags) { REAL(dlopen); shim_log("DLOPEN", "dlopen", path ? path : "(self)"); return real(path, flags); }

int sigaction(int sig, const struct sigaction *a, struct sigaction *o) {
    REAL(sigaction);
    if (a) { char b[32]; snprintf(b, sizeof b, "%d", sig); shim_log("SIGNAL", "sigaction", b); }
    return real(sig, a, o);
}
void *mmap(void *addr, size_t len, int prot, int flags, int fd, off_t off) {
    REAL(mmap);
    if (prot & PROT_EXEC) shim_log("FFI_JIT", "mmap-exec", "");
    return real(addr, len, prot, flags, fd, off);
}
void *mmap64(void *addr, size_t len, int prot, int flags, int fd, off_t off) {
    static void *(*real)(void *, size_t, int, int, int, off_t);
    if (!real) real = (void *(*)(void *, size_t, int, int, int, off_t)) dlsym(RTLD_NEXT, "mmap64");
    if (prot & PROT_EXEC) shim_log("FFI_JIT", "mmap64-exec", "");
    return real(addr, len, prot, flags, fd, off);
}
int mprotect(void *addr, size_t len, int prot) {
    REAL(mprotect);
    if (prot & PROT_EXEC) shim_log("FFI_JIT", "mprotect-exec", "");
    return real(addr, len, prot);
}
struct addrinfo;
int getaddrinfo(const char *node, const char *service, const struct addrinfo *hints, struct addrinfo **res) {
    static int (*real)(const char *, const char *, const struct addrinfo *, struct addrinfo **);
    if (!real) real = (int (*)(const char *, const char *, const struct addrinfo *, struct addrinfo **)) dlsym(RTLD_NEXT, "getaddrinfo");
    shim_log("NET_ANY", "getaddrinfo", node);
    return real(node, service, hints, res);
}
int inotify_add_watch(int fd, const char *path, uint32_t mask) {
    static int (*real)(int, const char *, uint32_t) = NULL;
    if (!real) real = (int (*)(int, const char *, uint32_t)) dlsym(RTLD_NEXT, "inotify_add_watch");
    shim_log("FS_READ", "inotify_add_watch", path);
    return real(fd, path, mask);
}
